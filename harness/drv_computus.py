"""Drivers for C19: Easter, Pesach, Moslem calendar conversions."""
import calwalk


def _ii(x):
    try:
        if x == int(x) and abs(x) < 2**31:
            return int(x)
    except Exception:
        pass
    return -1


def gen_easter(y0, y1):
    from pymeeus.Epoch import Epoch
    for y in range(y0, y1 + 1):
        try:
            m, d = Epoch.easter(y)
            m, d = _ii(m), _ii(d)
        except Exception:
            m, d = -2, -2
        try:
            dw = _ii(Epoch(y, m, d).dow())
        except Exception:
            dw = -2
        yield {"k": "easter", "y": y, "m": m, "d": d, "dw": dw}


def gen_pesach(y0, y1):
    from pymeeus.Epoch import Epoch
    for y in range(y0, y1 + 1):
        try:
            m, d = Epoch.jewish_pesach(y)
            m, d = _ii(m), _ii(d)
        except Exception:
            m, d = -2, -2
        yield {"k": "pesach", "y": y, "m": m, "d": d}


_LEAPS = {2, 5, 7, 10, 13, 16, 18, 21, 24, 26, 29}


def isl_days(h0, h1):
    """input generator: Islamic dates in order (oracle = spec chain, clause WALK)"""
    for h in range(h0, h1 + 1):
        for m in range(1, 13):
            n = 30 if m % 2 == 1 else (30 if (m == 12 and h % 30 in _LEAPS) else 29)
            for d in range(1, n + 1):
                yield h, m, d


def gen_m2g(h0, h1):
    from pymeeus.Epoch import Epoch
    for (h, m, d) in isl_days(h0, h1):
        try:
            y, mo, da = Epoch.moslem2gregorian(h, m, d)
            y, mo, da = _ii(y), _ii(mo), _ii(da)
        except Exception:
            y, mo, da = -2, -2, -2
        try:
            a, b, c = Epoch.gregorian2moslem(y, mo, da)
            rt = [_ii(a), _ii(b), _ii(c)]
        except Exception:
            rt = [-2, -2, -2]
        yield {"k": "m2g", "hy": h, "hm": m, "hd": d, "y": y, "m": mo, "d": da, "rt": rt}


def gen_g2m(y0, y1):
    from pymeeus.Epoch import Epoch
    for (y, m, d, n) in calwalk.days(y0, y1):
        if y == 622 and (m, d) < (7, 16):
            continue
        try:
            a, b, c = Epoch.gregorian2moslem(y, m, d)
            a, b, c = _ii(a), _ii(b), _ii(c)
        except Exception:
            a, b, c = -2, -2, -2
        yield {"k": "g2m", "y": y, "m": m, "d": d, "hy": a, "hm": b, "hd": c}
