"""Fix self-test driver: expected values by Python Fraction arithmetic."""
import random
from fractions import Fraction
from core import fx, unfx, _SCALE


def _tr(fr):           # truncate toward zero at 1e-16, as Fix does
    s = -1 if fr < 0 else 1
    n = (abs(fr).numerator * _SCALE) // abs(fr).denominator
    return s * Fraction(n, _SCALE)


def _rnd(rng):
    k = rng.random()
    if k < 0.1:
        return Fraction(rng.choice([0, 1, -1, 360, -360, 720, 359, 180]))
    if k < 0.2:
        return Fraction(rng.randint(-10**7, 10**7), 1)
    mag = 10 ** rng.uniform(-12, 7)
    v = rng.uniform(-1, 1) * mag
    return _tr(Fraction(v))


def gen(seed, n):
    rng = random.Random(seed)
    z = fx(0)
    for i in range(n):
        a = _rnd(rng)
        b = _rnd(rng)
        op = rng.choice(["add", "sub", "mul", "cmp", "divint", "mulint", "floor", "mod",
                         "fromint", "toint", "dec", "distmod"])
        ev = dict(op=op, a=fx(a), b=fx(b), n=0, r=z, k=0)
        if op == "add":
            ev["r"] = fx(a + b)
        elif op == "sub":
            ev["r"] = fx(a - b)
        elif op == "mul":
            ev["r"] = fx(_tr(a * b))
        elif op == "cmp":
            if rng.random() < 0.2:
                b = a
                ev["b"] = fx(b)
            ev["n"] = (a > b) - (a < b)
        elif op == "divint":
            m = rng.choice([1, 2, 3, 7, 24, 60, 360, 1440, 3600, 86400, 99991, 100000])
            ev["n"] = m
            ev["r"] = fx(_tr(a / m))
        elif op == "mulint":
            m = rng.randint(-10**6, 10**6)
            ev["n"] = m
            ev["r"] = fx(a * m)
        elif op == "floor":
            ev["r"] = fx(Fraction(a.numerator // a.denominator))
        elif op == "mod":
            m = rng.choice([360, 7, 24, 1, 19, 99999])
            ev["n"] = m
            ev["r"] = fx(a - m * ((a / m).numerator // (a / m).denominator))
        elif op == "fromint":
            m = rng.randint(-2**31 + 1, 2**31 - 1)
            ev["n"] = m
            ev["r"] = fx(m)
        elif op == "toint":
            a = _tr(Fraction(rng.uniform(-2e9, 2e9)))
            ev["a"] = fx(a)
            ev["n"] = int(a)
        elif op == "dec":
            m = rng.randint(-2**31 + 1, 2**31 - 1)
            k = rng.randint(0, 16)
            ev["n"], ev["k"] = m, k
            ev["r"] = fx(_tr(Fraction(m, 10**k)))
        elif op == "distmod":
            m = rng.choice([360, 24, 1])
            ev["n"] = m
            r = a - m * ((a / m).numerator // (a / m).denominator)
            ev["r"] = fx(min(r, m - r))
        yield ev
