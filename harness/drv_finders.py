"""Drivers for C13: planetary event finders (query sweeps and event reality)."""
import math
import random
from core import fx

BAD = fx(-99999)

SYN = {"Mercury": 115.8775, "Venus": 583.9214, "Mars": 779.9361, "Jupiter": 398.8840, "Saturn": 378.0919,
       "Uranus": 369.6560, "Neptune": 367.4867}
ORB = {"Mercury": 87.96935, "Venus": 224.70080, "Earth": 365.25964, "Mars": 686.99579, "Jupiter": 4332.897,
       "Saturn": 10764.2168, "Uranus": 30694.8767}
SYNF = ["inferior_conjunction", "superior_conjunction", "conjunction", "opposition", "eastern_elongation",
        "western_elongation", "station_longitude_1", "station_longitude_2"]


def _cls(planet):
    mod = __import__("pymeeus." + planet, fromlist=[planet])
    return getattr(mod, planet)


def finder_list():
    """(planet, finder, variant) for every finder the library offers"""
    out = []
    for pl in SYN:
        c = _cls(pl)
        for fn in SYNF:
            if hasattr(c, fn):
                out.append((pl, fn, -1))
    for pl in ORB:
        c = _cls(pl)
        for fn in ("perihelion_aphelion", "passage_nodes"):
            if hasattr(c, fn):
                out.append((pl, fn, 1))
                out.append((pl, fn, 0))
    return out


def _oc(ex):
    n = type(ex).__name__
    return n if n in ("TypeError", "ValueError", "ZeroDivisionError") else "other:" + n


_SHARED = {}


def _call(planet, fn, variant, jde):
    from pymeeus.Epoch import Epoch
    f = getattr(_cls(planet), fn)
    # every third query re-targets one long-lived Epoch with set() instead of building a fresh one
    n = _SHARED.get("n", 0) + 1
    _SHARED["n"] = n
    if n % 3 == 0:
        e = _SHARED.setdefault("e", Epoch(2451545.0))
        e.set(jde)
    else:
        e = Epoch(jde)
    if variant < 0:
        return f(e)
    return f(e, bool(variant))


H_SLOPE = 0.02           # days: half-width of the central difference used for slopes
J_M2000 = 990557.5      # -2000-01-01 (Julian)
J_4000 = 3182029.5      # 4000-01-01


def gen_sweep(planet, fn, variant, seed, eras, per_era, edge):
    """sorted queries at 1/20-period steps over `eras` windows of `per_era` periods each,
    plus (edge) the neighbourhood of both ends of the validity range"""
    from pymeeus.Epoch import Epoch
    P = SYN[planet] if fn in SYNF else ORB[planet]
    name = "%s.%s" % (planet, fn)
    rng = random.Random("sweep/%s/%s/%s/%s" % (seed, planet, fn, variant))
    span = J_4000 - J_M2000
    starts = []
    width = per_era * P
    if width * eras >= span * 0.95:
        starts = [(J_M2000 + 2.0, J_4000 - 2.0)]
    else:
        for i in range(eras):
            a = J_M2000 + 2.0 + (span - width - 4.0) * (i + rng.random()) / eras
            a = min(a, J_4000 - 2.0 - width)
            starts.append((a, a + width))
    qs = []
    for (a, b) in starts:
        q = a
        while q <= b:
            qs.append(q)
            q += P / 20.0
        for _ in range(per_era):
            qs.append(rng.uniform(a, b))
    if edge:
        for j in (J_M2000, J_4000):
            k = -2.0 * P
            while k <= 2.0 * P:
                qs.append(j + k)
                k += P / 20.0
            qs += [j - 400.0, j - 370.0, j + 370.0, j + 400.0, j - 1.0, j + 1.0]
    qs = sorted(q for q in qs if q > 700000.0)
    for q in qs:
        ev = {"k": "q", "f": name, "site": name, "v": variant, "q": fx(q), "qf": q}
        try:
            y, m, d = Epoch(q).get_date()
            ev["y"] = int(y)
        except Exception:
            ev["y"] = -99999
        # "whatever was called in between": the sibling finders of the same planet are queried at the same epoch first
        # (the other variant of a two-variant finder; the node finder before the apsis finder and vice versa)
        if variant >= 0:
            for (ofn, ov) in ((fn, 1 - variant), ("passage_nodes" if fn == "perihelion_aphelion" else "perihelion_aphelion", variant)):
                try:
                    _call(planet, ofn, ov, q)
                except Exception:
                    pass
        try:
            r = _call(planet, fn, variant, q)
            extra = 0.0
            if isinstance(r, tuple):
                extra = float(r[1])
                r = r[0]
            ev["r"], ev["rf"], ev["x"], ev["oc"] = fx(r.jde()), r.jde(), fx(extra), "ok"
        except Exception as ex:
            ev["r"], ev["rf"], ev["x"], ev["oc"] = BAD, 0.0, BAD, _oc(ex)
        yield ev


# ---------------------------------------------------------------------------
# event reality: the library's own VSOP87 positions around the returned instant
# ---------------------------------------------------------------------------
def _wrap180(x):
    x = (x + 180.0) % 360.0 - 180.0
    return x


def _sun_lon(jde):
    from pymeeus.Epoch import Epoch
    from pymeeus.Sun import Sun
    lon, lat, r = Sun.apparent_geocentric_position(Epoch(jde))
    return float(lon), float(r)


def _geo_lon(planet, jde):
    """apparent geocentric ecliptic longitude of the planet from the library's own
    geocentric_position (ra, dec) and true obliquity"""
    from pymeeus.Epoch import Epoch
    from pymeeus.Coordinates import equatorial2ecliptical, true_obliquity
    e = Epoch(jde)
    ra, dec, elong = _cls(planet).geocentric_position(e)
    lon, lat = equatorial2ecliptical(ra, dec, true_obliquity(Epoch(jde)))
    return float(lon), float(elong)


def _helio(planet, jde):
    from pymeeus.Epoch import Epoch
    L, B, R = _cls(planet).geometric_heliocentric_position(Epoch(jde))
    return float(L), float(B), float(R)


def gen_events(planet, fn, variant, seed, n, window=None, stride=1):
    """n returned events spread over -2000..4000; five-point stencil of the relevant quantity.
    window = (j0, j1): instead, EVERY event of that window is asked for (queries at half-period steps: a refusal is a
    totality violation) and every stride-th distinct one is judged against the positions"""
    from pymeeus.Epoch import Epoch
    if planet == "Earth" and fn == "passage_nodes":
        return      # the Earth's heliocentric latitude of date is identically ~0: the event has no VSOP87 counterpart
    P = SYN[planet] if fn in SYNF else ORB[planet]
    name = "%s.%s" % (planet, fn)
    tol = 1.0 if planet in ("Mercury", "Venus", "Earth", "Mars") else 2.0
    rng = random.Random("events/%s/%s/%s/%s" % (seed, planet, fn, variant))
    seen = set()
    tries = 0
    qs = None
    if window is not None:
        qs, q = [], max(J_M2000 + P, window[0])
        while q <= min(J_4000 - P, window[1]):
            qs.append(q)
            q += P / 2.0
        qs = iter(qs)
    while window is not None or (len(seen) < n and tries < 5 * n):
        tries += 1
        if window is not None:
            q = next(qs, None)
            if q is None:
                break
        else:
            q = rng.uniform(J_M2000 + P, J_4000 - P)
        qy = int(Epoch(q).get_date()[0])
        try:
            r = _call(planet, fn, variant, q)
        except Exception as ex:
            yield {"k": "ev", "f": name, "site": name, "fn": fn, "v": variant, "kind": "none", "oc": _oc(ex), "qf": q, "y": qy,
                   "s": [BAD] * 5, "rep": BAD, "aux": fx(0), "tol": fx(tol), "rf": 0.0, "dl": fx(0), "dr": fx(0)}
            continue
        rep = 0.0
        if isinstance(r, tuple):
            rep = float(r[1])
            r = r[0]
        rj = r.jde()
        key = round(rj, 3)
        if key in seen:
            continue
        seen.add(key)
        if window is not None and stride > 1 and int(round(rj / P)) % stride:
            continue          # (the judged subset is a function of the event, not of the window: every tier judges the same ones)
        ts = [rj - 2 * tol, rj - tol, rj, rj + tol, rj + 2 * tol]
        aux = 0.0
        slope = None
        dl = dr = 0.0
        try:
            if fn in ("inferior_conjunction", "superior_conjunction", "conjunction", "opposition"):
                target = 180.0 if fn == "opposition" else 0.0
                s = []
                for t in ts:
                    pl, _ = _geo_lon(planet, t)
                    sl, _ = _sun_lon(t)
                    s.append(_wrap180(pl - sl - target))
                kind = "lon"
                # inferior / superior: planet nearer / farther than the Sun
                from pymeeus.Earth import Earth
                Lp, Bp, Rp = _helio(planet, rj)
                Le, Be, Re = _helio("Earth", rj)
                # heliocentric longitudes: planet on the Earth's side of the Sun (inferior) or beyond it
                aux = _wrap180(Lp - Le) if fn in ("inferior_conjunction", "superior_conjunction") else 0.0
            elif fn in ("eastern_elongation", "western_elongation"):
                s = [_geo_lon(planet, t)[1] for t in ts]
                kind = "elong"
                slope = lambda t: _geo_lon(planet, t + H_SLOPE)[1] - _geo_lon(planet, t - H_SLOPE)[1]
                pl, _ = _geo_lon(planet, rj)
                sl, _ = _sun_lon(rj)
                aux = _wrap180(pl - sl)          # > 0: east of the Sun
            elif fn in ("station_longitude_1", "station_longitude_2"):
                base = _geo_lon(planet, rj)[0]
                s = [_wrap180(_geo_lon(planet, t)[0] - base) for t in ts]
                kind = "station"
                slope = lambda t: _wrap180(_geo_lon(planet, t + H_SLOPE)[0] - _geo_lon(planet, t - H_SLOPE)[0])
            elif fn == "perihelion_aphelion":
                s = [_helio(planet, t)[2] for t in ts]
                kind = "radius"
                slope = lambda t: _helio(planet, t + H_SLOPE)[2] - _helio(planet, t - H_SLOPE)[2]
            else:
                s = [_helio(planet, t)[1] for t in ts]
                kind = "node"
            if slope is not None:
                # extremum kinds: the change of the quantity over +-H_SLOPE days at both ends of the accuracy window
                # (the extremum lies within tol of the returned instant iff the slope changes sign across the window)
                dl, dr = slope(rj - tol), slope(rj + tol)
        except Exception as ex:
            yield {"k": "ev", "f": name, "site": name, "fn": fn, "v": variant, "kind": "none", "oc": "pos:" + _oc(ex), "qf": q, "y": qy,
                   "s": [BAD] * 5, "rep": BAD, "aux": fx(0), "tol": fx(tol), "rf": rj, "dl": fx(0), "dr": fx(0)}
            continue
        yield {"k": "ev", "f": name, "site": name, "fn": fn, "v": variant, "kind": kind, "oc": "ok", "qf": q, "y": qy, "rf": rj,
               "s": [fx(v) for v in s], "rep": fx(rep), "aux": fx(aux), "tol": fx(tol), "sf": s, "dl": fx(dl), "dr": fx(dr),
               "dlf": dl, "drf": dr}


def gen_all(planet, fn, variant, seed, window, stride):
    for ev in gen_events(planet, fn, variant, seed, 0, window=tuple(window), stride=stride):
        yield ev


def gen_group(items, seed, eras, per_era, edge, nev):
    """several finder variants in one trace (the specification restarts its state when f changes)"""
    for (pl, fn, v) in items:
        for ev in gen_sweep(pl, fn, v, seed, eras, per_era, edge):
            yield ev
        for ev in gen_events(pl, fn, v, seed, nev):
            yield ev
