"""Driver for C06: precession (equatorial, ecliptical, Newcomb), proper motion, element reduction."""
import math
import random
from core import fx
from drv_sphere import U, F3

J2000 = 2451545.0


def _dir(rng):
    r = rng.random()
    if r < 0.5:
        z = rng.uniform(-1, 1)
        return rng.uniform(0, 360), math.degrees(math.asin(z))
    # "every declination including within 5 degrees of either pole": down to 1e-8 degree from the pole, and the pole itself
    if r < 0.75:
        return rng.uniform(0, 360), 90.0 - rng.choice([rng.uniform(0.001, 5.0), 10 ** rng.uniform(-8, -3), 0.0])
    if r < 0.95:
        return rng.uniform(0, 360), -90.0 + rng.choice([rng.uniform(0.001, 5.0), 10 ** rng.uniform(-8, -3), 0.0])
    return rng.choice([0.0, 359.999999, 180.0]), rng.choice([0.0, 84.99, 85.01, -85.0])


def _epoch(rng, cent):
    from pymeeus.Epoch import Epoch
    return Epoch(J2000 + rng.uniform(-cent, cent) * 36525.0)


def gen_prec(seed, shard, n):
    """a reduction that raises is an event (clause PRECESSION_TOTAL), not a crash of the driver"""
    rng = random.Random("prec/%s/%s" % (seed, shard))
    for i in range(n):
        it = _prec_one(rng)
        while True:
            try:
                ev = next(it)
            except StopIteration:
                break
            except Exception as ex:
                import traceback
                fn = traceback.extract_tb(ex.__traceback__)[-1].name
                yield {"k": "raise", "site": fn, "fn": fn, "exc": type(ex).__name__, "in": getattr(rng, "last_in", []),
                       "dec": (getattr(rng, "last_in", [0, 0]) or [0, 0])[1]}
                break
            yield ev


def _prec_one(rng):
    from pymeeus.Angle import Angle as A
    from pymeeus.Epoch import Epoch
    from pymeeus import Coordinates as C
    for _ in range(1):
        ra, dec = _dir(rng)
        rng.last_in = [ra, dec]
        e0, e1 = _epoch(rng, rng.choice([5, 5, 20])), _epoch(rng, rng.choice([5, 5, 20]))
        j0, j1 = e0.jde(), e1.jde()
        if rng.random() < 0.15:
            # a star that precession carries to within 0.01 .. 0.2 degree of a pole of the NEW equator (the start direction is
            # only placed with the library's help: the image of such a point under the opposite reduction)
            tdec = rng.choice([1.0, -1.0]) * (90.0 - 10 ** rng.uniform(-2.0, -0.7))
            try:
                pr_, pd_0 = C.precession_equatorial(Epoch(j1), Epoch(j0), A(rng.uniform(0, 360)), A(tdec))
                ra, dec = float(pr_), float(pd_0)
            except Exception:
                pass
        info = {"in": [ra, dec, j0, j1], "polar": 1 if abs(dec) > 85 else 0, "dec": dec}
        # equatorial: there, back, identity, second star
        r1, d1 = C.precession_equatorial(Epoch(j0), Epoch(j1), A(ra), A(dec))
        r2, d2 = C.precession_equatorial(Epoch(j1), Epoch(j0), r1, d1)
        ri, di = C.precession_equatorial(Epoch(j0), Epoch(j0), A(ra), A(dec))
        ra2, dec2 = _dir(rng)
        if rng.random() < 0.4:
            ra2, dec2 = ra + rng.uniform(-3, 3), max(-89.999, min(89.999, dec + rng.uniform(-3, 3)))
        s1, t1 = C.precession_equatorial(Epoch(j0), Epoch(j1), A(ra2), A(dec2))
        u0, v0 = U(ra, dec), U(ra2, dec2)
        c0 = math.sqrt(sum((a - b) ** 2 for a, b in zip(u0, v0)))
        yield dict(info, k="pe", u0=F3(u0), u1=F3(U(float(r1), float(d1))), u2=F3(U(float(r2), float(d2))),
                   uid=F3(U(float(ri), float(di))), v0=F3(v0), v1=F3(U(float(s1), float(t1))), c0=fx(c0),
                   maxdec=max(abs(dec), abs(float(d1)), abs(dec2), abs(float(t1))))
        # ecliptical
        w5 = 1 if (abs(j0 - J2000) <= 5 * 36525 and abs(j1 - J2000) <= 5 * 36525) else 0
        l1, b1 = C.precession_ecliptical(Epoch(j0), Epoch(j1), A(ra), A(dec))
        l2, b2 = C.precession_ecliptical(Epoch(j1), Epoch(j0), l1, b1)
        li, bi = C.precession_ecliptical(Epoch(j0), Epoch(j0), A(ra), A(dec))
        yield dict(info, k="pl", w5=w5, u0=F3(u0), u1=F3(U(float(l1), float(b1))), u2=F3(U(float(l2), float(b2))),
                   uid=F3(U(float(li), float(bi))), maxdec=max(abs(dec), abs(float(b1))))
        # routes (both epochs within 5 centuries)
        if w5:
            eps0, eps1 = C.mean_obliquity(Epoch(j0)), C.mean_obliquity(Epoch(j1))
            lo, la = C.equatorial2ecliptical(A(ra), A(dec), eps0)
            lo1, la1 = C.precession_ecliptical(Epoch(j0), Epoch(j1), lo, la)
            rr, dd = C.ecliptical2equatorial(lo1, la1, eps1)
            yield dict(info, k="rt", ur=F3(U(float(r1), float(d1))), ue=F3(U(float(rr), float(dd))),
                       maxdec=max(abs(dec), abs(float(d1))))
        # proper motion
        mua, mud = rng.uniform(-10, 10) / 3600.0, rng.uniform(-10, 10) / 3600.0       # degrees per year
        zc = rng.random()
        if zc < 0.15:
            mua = 0.0                      # motion in declination only
        elif zc < 0.3:
            mud = 0.0                      # motion in right ascension only
        dty = rng.choice([10.0, 50.0, 100.0])
        if rng.random() < 0.12:
            # a star next to a pole whose proper motion (in declination only) carries it across the pole
            sg = rng.choice([1.0, -1.0])
            pdec = sg * (90.0 - rng.uniform(0.01, 0.2))
            pmud = sg * rng.uniform(3.0, 10.0) / 3600.0
            res = []
            for kk in (1, 2):
                jj = j0 + kk * dty * 365.25
                pr, pdd = C.precession_equatorial(Epoch(j0), Epoch(jj), A(ra), A(pdec), A(0.0), A(pmud))
                qr, qd = C.precession_equatorial(Epoch(j0), Epoch(jj), A(ra), A(pdec))
                res += [F3(U(float(pr), float(pdd))), F3(U(float(qr), float(qd)))]
            yield dict(info, k="pm", fn="eqpole", p1=res[0], q1=res[1], p2=res[2], q2=res[3], mua=fx(0.0), mud=fx(pmud),
                       cd=fx(math.cos(math.radians(pdec))), dty=fx(dty), maxdec=0.0)
        if abs(dec) < 80:
            # the same start Angle objects are reused for every call, as an ephemeris loop would
            for fn, tag in ((C.precession_equatorial, "eq"), (C.precession_ecliptical, "ec"), (C.precession_newcomb, "nc")):
                sa, sd, pa, pd_ = A(ra), A(dec), A(mua), A(mud)
                res = []
                for kk in (1, 2):
                    jj = j0 + kk * dty * 365.25
                    pr, pdd = fn(Epoch(j0), Epoch(jj), sa, sd, pa, pd_)
                    qr, qd = fn(Epoch(j0), Epoch(jj), sa, sd)
                    res += [F3(U(float(pr), float(pdd))), F3(U(float(qr), float(qd)))]
                yield dict(info, k="pm", fn=tag, p1=res[0], q1=res[1], p2=res[2], q2=res[3], mua=fx(mua), mud=fx(mud),
                           cd=fx(math.cos(math.radians(dec))), dty=fx(dty), maxdec=abs(dec))
        # Newcomb vs FK5, epochs in 1800-2100
        ja, jb = 2378496.5 + rng.uniform(0, 109573), 2378496.5 + rng.uniform(0, 109573)
        fr, fd = C.precession_equatorial(Epoch(ja), Epoch(jb), A(ra), A(dec))
        try:
            nr, nd = C.precession_newcomb(Epoch(ja), Epoch(jb), A(ra), A(dec))
            yield dict(info, k="nc", oc="ok", un=F3(U(float(nr), float(nd))), uf=F3(U(float(fr), float(fd))), maxdec=abs(dec))
        except Exception as ex:
            yield dict(info, k="nc", oc=type(ex).__name__, un=F3(U(0, 0)), uf=F3(U(float(fr), float(fd))), maxdec=abs(dec))
        # orbital elements to another equinox and back
        # any inclination, with emphasis on the branch limits: nearly polar orbits (the reduction can carry them across
        # i = 90), nearly retrograde-flat and nearly flat ones
        i0 = rng.choice([rng.uniform(0.5, 170), rng.uniform(0.5, 170), 90.0 + rng.uniform(-0.12, 0.12), 90.0, rng.uniform(170, 179), rng.uniform(1.0, 3.0)])
        a0, l0 = rng.uniform(0, 360), rng.uniform(0, 360)
        i1, a1, ll1 = C.orbital_equinox2equinox(Epoch(j0), Epoch(j1), A(i0), A(a0), A(l0))
        i2, a2, ll2 = C.orbital_equinox2equinox(Epoch(j1), Epoch(j0), i1, a1, ll1)
        # a loop through a third equinox (any inclination, also orbits lying almost in the ecliptic)
        i3 = rng.choice([10 ** rng.uniform(-4.0, -0.5), 10 ** rng.uniform(-4.0, -2.0), rng.uniform(0.3, 170.0), i0])
        j2 = J2000 + rng.uniform(-5, 5) * 36525.0
        ja, jb = J2000 + rng.uniform(-5, 5) * 36525.0, J2000 + rng.uniform(-5, 5) * 36525.0
        ei, ea, el_ = A(i3), A(a0), A(l0)
        if rng.random() < 0.5:
            # the caller's comparison tolerance (arc second, milli-degree) is not part of the angle's value
            tl = rng.choice([1.0 / 3600.0, 1e-3, 0.05])
            ei.set_tolerance(tl), ea.set_tolerance(tl), el_.set_tolerance(tl)
        for (s0, s1) in ((ja, jb), (jb, j2), (j2, ja)):
            ei, ea, el_ = C.orbital_equinox2equinox(Epoch(s0), Epoch(s1), ei, ea, el_)
        yield dict(info, k="el3", i0=fx(i3), a0=fx(a0), l0=fx(l0), i2=fx(float(ei)), a2=fx(float(ea)), l2=fx(float(el_)),
                   maxdec=0.0, el=[i3, a0, l0])
        yield dict(info, k="el", i0=fx(i0), a0=fx(a0), l0=fx(l0), i1=fx(float(i1)), i2=fx(float(i2)), a2=fx(float(a2)),
                   l2=fx(float(ll2)), maxdec=0.0, el=[i0, a0, l0], w5=w5)
