"""API catalogue for C20: every public callable of pymeeus, with generators of well-typed in-domain
arguments (from the docstrings' :type: lines plus a curated domain table) and of ill-typed arguments."""
import datetime
import importlib
import inspect
import math
import random
import re

MODS = ["base", "Angle", "Epoch", "Interpolation", "CurveFitting", "Coordinates", "Earth", "Sun", "Moon", "Mercury",
        "Venus", "Mars", "Jupiter", "Saturn", "Uranus", "Neptune", "Pluto", "Minor", "JupiterMoons"]
SKIP = {"main", "print_me"}
# host-clock dependent or interactive: excluded from determinism (DESIGN 6.4)
CLOCK = {"Epoch.utc2local"}
# documented non-value results: "a tuple with None's is returned" for a circumpolar body
NONE_OK = {"Coordinates.times_rise_transit_set": "tuple(NoneType,NoneType,NoneType)"}
# documented mutators (change self only)
MUTATORS = {"Angle.set", "Angle.set_radians", "Angle.set_ra", "Angle.to_positive", "Angle.set_tolerance", "Epoch.set",
            "Interpolation.set", "Interpolation.set_tolerance", "CurveFitting.set", "Minor.set", "Earth.set",
            "Angle.__init__", "Epoch.__init__", "Interpolation.__init__", "CurveFitting.__init__", "Minor.__init__",
            "Earth.__init__", "Ellipsoid.__init__", "JupiterMoons.__init__"}


def _mod(m):
    return importlib.import_module("pymeeus." + m)


def callables():
    """-> list of (qualified name, module, owner class or None, attribute name, kind)"""
    out = []
    for m in MODS:
        mod = _mod(m)
        for name, obj in inspect.getmembers(mod):
            if name.startswith("_") or name in SKIP:
                continue
            if inspect.isfunction(obj) and obj.__module__ == mod.__name__:
                out.append((m + "." + name if m in ("Coordinates", "base") else name, m, None, name, "function"))
            elif inspect.isclass(obj) and obj.__module__ == mod.__name__:
                for mn, mo in inspect.getmembers(obj):
                    if mn.startswith("_") and mn not in ("__call__", "__len__", "__str__", "__repr__", "__float__", "__int__",
                                                        "__round__", "__hash__", "__neg__", "__abs__"):
                        continue
                    if not callable(mo) or mn in SKIP:
                        continue
                    if mn.startswith("__") and mn not in vars(obj):
                        continue          # inherited from object (default repr/hash carry the memory address)
                    raw = inspect.getattr_static(obj, mn)
                    kind = "static" if isinstance(raw, staticmethod) else "method"
                    out.append((name + "." + mn, m, name, mn, kind))
    return out


def doc_types(fn):
    doc = inspect.getdoc(fn) or ""
    out = {}
    for m in re.finditer(r":type (\w+):\s*([^\n]+(?:\n\s{3,}[^\n:]+)*)", doc):
        out[m.group(1)] = " ".join(m.group(2).split())
    return out


# ---------------------------------------------------------------------------
# value domains by parameter name (floats unless noted)
# ---------------------------------------------------------------------------
def _u(a, b):
    return lambda rng: rng.uniform(a, b)


def _c(*vals):
    return lambda rng: rng.choice(vals)


JD = _u(2415020.5, 2488070.5)        # 1900 .. 2100
DOM = {
    "latitude": _u(-66.0, 66.0), "geo_latitude": _u(-89.0, 89.0), "obs_lat": _u(-80.0, 80.0), "lat": _u(-80.0, 80.0),
    "lat1": _u(-89.0, 89.0), "lat2": _u(-89.0, 89.0), "lon1": _u(-180.0, 180.0), "lon2": _u(-180.0, 180.0),
    "longitude": _u(-179.0, 179.0), "declination": _u(-80.0, 80.0), "dec": _u(-80.0, 80.0), "delta": _u(-80.0, 80.0),
    "delta1": _u(-60.0, 60.0), "delta2": _u(-60.0, 60.0), "delta3": _u(-60.0, 60.0), "delta_star": _u(-60.0, 60.0),
    "delta_star1": _u(-60.0, 60.0), "delta_star2": _u(-60.0, 60.0),
    "alpha1": _u(10.0, 350.0), "alpha2": _u(10.0, 350.0), "alpha3": _u(10.0, 350.0), "alpha": _u(0.0, 359.0),
    "alpha_star": _u(10.0, 350.0), "alpha_star1": _u(10.0, 350.0), "alpha_star2": _u(10.0, 350.0),
    "right_ascension": _u(0.0, 359.0), "ra": _u(0.0, 359.0), "hour_angle": _u(1.0, 359.0), "azimuth": _u(1.0, 359.0),
    "elevation": _u(-80.0, 80.0), "apparent_elevation": _u(0.5, 89.0), "true_elevation": _u(0.5, 89.0),
    "obliquity": _u(22.0, 24.5), "epsilon": _u(22.0, 24.5), "true_obliquity": _u(22.0, 24.5), "nutation_longitude": _u(-0.005, 0.005),
    "start_ra": _u(0.0, 359.0), "start_dec": _u(-80.0, 80.0), "start_lon": _u(0.0, 359.0), "start_lat": _u(-80.0, 80.0),
    "p_motion_ra": _u(-0.001, 0.001), "p_motion_dec": _u(-0.001, 0.001), "p_motion_lon": _u(-0.001, 0.001), "p_motion_lat": _u(-0.001, 0.001),
    "sun_lon": _u(0.0, 359.0), "local_sidereal_time": _u(0.0, 359.0), "sidereal_time": _u(0.0, 359.0), "theta0": _u(0.0, 359.0),
    "h0": _c(-0.5667, -0.8333, 0.125), "delta_t": _u(50.0, 70.0), "semidiameter": _u(0.2, 0.3),
    "omega": _u(0.0, 359.0), "w": _u(0.0, 359.0), "i": _u(1.0, 170.0), "i0": _u(1.0, 170.0), "arg0": _u(0.0, 359.0), "lon0": _u(0.0, 359.0),
    "e": _u(0.0, 0.9), "eccentricity": _u(0.0, 0.95), "a": _u(0.4, 40.0), "q": _u(0.2, 10.0), "r": _u(0.4, 40.0),
    "mean_anomaly": _u(-360.0, 360.0), "distance": _u(0.3, 30.0), "velocity": _u(-50.0, 50.0), "time": _u(-5000.0, 5000.0),
    "sun_dist": _u(0.5, 5.0), "earth_dist": _u(0.6, 4.0), "sun_earth_dist": _u(0.983, 1.017), "phase_angle": _u(1.0, 170.0),
    "height": _u(0.0, 4000.0), "altitude": _u(0.0, 4000.0), "pressure": _u(900.0, 1050.0), "temperature": _u(-10.0, 30.0),
    "year": lambda rng: rng.randint(-999, 2999), "month": lambda rng: rng.randint(1, 12), "day": lambda rng: rng.randint(1, 28),
    "yyyy": lambda rng: rng.randint(-999, 2999), "mm": lambda rng: rng.randint(1, 12), "dd": lambda rng: rng.randint(1, 28),
    "doy": lambda rng: rng.randint(1, 365), "number": lambda rng: rng.randint(1, 2000), "ordinal": lambda rng: rng.randint(0, 120),
    "deg": _u(-720.0, 720.0), "degrees": lambda rng: rng.randint(0, 359), "minutes": lambda rng: rng.randint(0, 59),
    "seconds": _u(0.0, 59.9), "rads": _u(-7.0, 7.0), "n_dec": lambda rng: rng.randint(-1, 6), "tol": _c(1e-10, 1e-8),
    "x": _u(1.2, 3.8), "xl": _c(0), "xh": _c(0), "max_iter": _c(1000), "f": _u(0.0, 0.01),
    "i_sat": lambda rng: rng.randint(0, 3), "X": _u(-10.0, 10.0), "Y": _u(-2.0, 2.0), "Z": _u(-10.0, 10.0),
    "delta_U": _u(-1.0, 1.0), "B": _u(-3.0, 3.0), "OMEGA": _u(0.0, 360.0), "psi": _u(0.0, 360.0), "lambda_0": _u(0.0, 360.0), "beta_0": _u(-1.0, 1.0),
}
STR = {"target": {"moon_phase": ["new", "first", "full", "last"], "moon_perigee_apogee": ["perigee", "apogee"],
                  "moon_passage_nodes": ["ascending", "descending"], "moon_maximum_declination": ["northern", "southern"],
                  "get_equinox_solstice": ["spring", "summer", "autumn", "winter"]}}
# per-function overrides: (qualified name, parameter) -> generator
OVR = {
    ("Epoch.tt2ut", "year"): lambda rng: rng.randint(-1999, 2999),
    ("Epoch.leap_seconds", "year"): lambda rng: rng.randint(1950, 2100),
    ("Epoch.easter", "year"): lambda rng: rng.randint(-4000, 9000),
    ("Epoch.jewish_pesach", "year"): lambda rng: rng.randint(1, 3000),
    ("Epoch.moslem2gregorian", "year"): lambda rng: rng.randint(1, 2400),
    ("Epoch.gregorian2moslem", "year"): lambda rng: rng.randint(700, 2999),
    ("Epoch.doy2date", "year"): lambda rng: rng.randint(-999, 2999),
    ("Epoch.is_leap", "year"): lambda rng: rng.randint(-4000, 4000),
    ("Epoch.is_julian", "year"): lambda rng: rng.randint(-4000, 4000),
    ("Coordinates.passage_nodes_parabolic", "q"): _u(0.2, 5.0),
    ("Earth.parallax_correction", "distance"): _u(0.3, 30.0),
    ("Earth.parallax_ecliptical", "distance"): _u(0.3, 30.0),
    ("Coordinates.kepler_equation", "eccentricity"): _u(0.0, 0.95),
    ("Coordinates.length_orbit", "e"): _u(0.0, 0.99),
    ("Interpolation.root", "xl"): _c(0), ("Interpolation.root", "xh"): _c(0),
    ("Coordinates.diurnal_path_horizon", "declination"): _u(-25.0, 25.0), ("Coordinates.diurnal_path_horizon", "geo_latitude"): _u(-60.0, 60.0),
    ("Pluto.geocentric_position", "epoch"): _u(2415020.5, 2480000.5), ("Pluto.geometric_heliocentric_position", "epoch"): _u(2415020.5, 2480000.5),
}


# documented-domain edges and internal seams (table boundaries, calendar reform, branch limits): one extra well-typed call per
# (parameter, edge value); the other arguments stay seeded-random
EDGES = {
    ("Sun.get_equinox_solstice", "year"): [-1000, -1, 0, 999, 1000, 1001, 3000],
    ("Epoch.tt2ut", "year"): [-1999, -501, -500, -499, 499, 500, 501, 1599, 1600, 1601, 1699, 1700, 1701, 1799, 1800, 1801, 1859, 1860,
                              1861, 1899, 1900, 1901, 1919, 1920, 1921, 1940, 1941, 1942, 1960, 1961, 1962, 1985, 1986, 1987, 2004,
                              2005, 2006, 2049, 2050, 2051, 2149, 2150, 2151, 2999],
    ("Epoch.leap_seconds", "year"): [1971, 1972, 1973, 2016, 2017, 2018],
    ("Epoch.easter", "year"): [1, 1582, 1583, 1584],
    ("Epoch.is_leap", "year"): [-4, -1, 0, 1, 4, 100, 1500, 1580, 1582, 1584, 1600, 1700, 2000],
    ("Epoch.is_julian", "year"): [1581, 1582, 1583],
    ("Epoch.doy2date", "year"): [1581, 1582, 1583, 1600, 1700],
    ("Epoch.moslem2gregorian", "year"): [1, 2, 990, 991],
    ("Epoch.gregorian2moslem", "year"): [1582, 1583],
    ("Epoch.jewish_pesach", "year"): [1, 1582, 1583],
    ("Coordinates.kepler_equation", "eccentricity"): [0.0, 0.95],
    ("Coordinates.kepler_equation", "mean_anomaly"): [0.0, 180.0, 360.0, -180.0],
}
EDGES_BY_NAME = {
    "month": [1, 12], "year": [-999, 0, 1582, 1583, 2999], "i_sat": [0, 3], "n_dec": [0],
    "e": [0.0], "eccentricity": [0.0], "mean_anomaly": [0.0, 180.0], "longitude": [0.0, 180.0, -180.0], "latitude": [0.0],
    "declination": [0.0], "right_ascension": [0.0], "hour_angle": [180.0], "azimuth": [180.0], "deg": [0.0, 360.0, -360.0],
    "rads": [0.0], "degrees": [0], "minutes": [0], "seconds": [0.0], "doy": [1, 365], "delta_t": [0.0],
}


def edges_for(qn, pname):
    if (qn, pname) in EDGES:
        return EDGES[(qn, pname)]
    if (qn, pname) in OVR:
        return []
    return EDGES_BY_NAME.get(pname, [])


ANGLE_NAMES = {"right_ascension", "declination", "longitude", "latitude", "obliquity", "hour_angle", "azimuth", "elevation",
               "geo_latitude", "alpha", "delta", "start_ra", "start_dec", "start_lon", "start_lat"}


class Gen(object):
    def __init__(self, seed, force=None):
        self.rng = random.Random(seed)
        self.force = force or {}

    def angle(self, v):
        from pymeeus.Angle import Angle
        return Angle(v)

    def epoch(self, jde=None):
        from pymeeus.Epoch import Epoch
        return Epoch(JD(self.rng) if jde is None else jde)

    def value(self, qn, pname, tdoc, default):
        """a well-typed in-domain value for parameter pname of callable qn"""
        rng = self.rng
        t = (tdoc or "").lower()
        fname = qn.split(".")[-1]
        if pname == "target":
            return rng.choice(STR["target"].get(fname, ["new"]))
        if pname in self.force:
            v = self.force[pname]
        elif (qn, pname) in OVR:
            v = OVR[(qn, pname)](rng)
            if "epoch" in pname:
                return self.epoch(v)
        elif "epoch" in pname or "epoch" in t:
            return self.epoch()
        elif pname in DOM:
            v = DOM[pname](rng)
        elif "bool" in t or isinstance(default, bool):
            return rng.random() < 0.5
        elif default is not inspect.Parameter.empty and default is not None:
            return default
        else:
            return None        # unknown parameter: caller must handle
        if "bool" in t:
            return rng.random() < 0.5
        if not t and pname in ANGLE_NAMES and qn.startswith("Coordinates."):
            return self.angle(v)          # docstring without a :type: line for an angular argument
        if "angle" in t and "float" not in t and "int" not in t:
            return self.angle(v)
        if "angle" in t and rng.random() < 0.5:
            return self.angle(v)
        if t.strip() in ("int",) and not isinstance(v, int):
            return int(v)
        if "float" in t and "int" not in t and isinstance(v, int):
            return float(v)
        return v


# ---------------------------------------------------------------------------
# documented rejections: calls the docstrings themselves declare invalid ("raises ValueError if ... are in the wrong
# range / invalid", "raises TypeError if ... wrong type", a date needs year, month AND day, the target must be one of the
# listed strings, ...).  Unlike the generic ill-typed variants (where accepting the argument is tolerated), these MUST be
# refused with TypeError or ValueError.
# ---------------------------------------------------------------------------
def must_reject():
    from pymeeus.Epoch import Epoch
    from pymeeus.Angle import Angle as A
    from pymeeus import Coordinates as C
    from pymeeus.Sun import Sun
    from pymeeus.Moon import Moon
    from pymeeus.Interpolation import Interpolation
    from pymeeus.Pluto import Pluto
    return [
        ("Epoch.check_input_date", "empty tuple", lambda: Epoch.check_input_date(())),
        ("Epoch.check_input_date", "one-element tuple", lambda: Epoch.check_input_date((1987,))),
        ("Epoch.check_input_date", "two-element list", lambda: Epoch.check_input_date([1987, 6])),
        ("Epoch.check_input_date", "no argument", lambda: Epoch.check_input_date()),
        ("Coordinates.mean_obliquity", "one-element list", lambda: C.mean_obliquity([1987])),
        ("Coordinates.nutation_longitude", "empty tuple", lambda: C.nutation_longitude(())),
        ("Coordinates.true_obliquity", "one-element tuple", lambda: C.true_obliquity((2000,))),
        ("Coordinates.nutation_obliquity", "two-element list", lambda: C.nutation_obliquity([2000, 1])),
        ("Epoch.__init__", "month 13", lambda: Epoch(2000, 13, 1)),
        ("Epoch.__init__", "30 February", lambda: Epoch(2000, 2, 30)),
        ("Epoch.__init__", "month 0", lambda: Epoch(2000, 0, 1)),
        ("Epoch.__init__", "day 0", lambda: Epoch(2000, 1, 0)),
        ("Epoch.__init__", "string", lambda: Epoch("2000")),
        ("Epoch.get_month", "13", lambda: Epoch.get_month(13)),
        ("Epoch.get_month", "unknown name", lambda: Epoch.get_month("Foo")),
        ("Epoch.get_month", "0", lambda: Epoch.get_month(0)),
        ("Epoch.doy2date", "day 400", lambda: Epoch.doy2date(2001, 400)),
        ("Epoch.doy2date", "day 0", lambda: Epoch.doy2date(2001, 0)),
        ("Epoch.doy2date", "day 366 of a common year", lambda: Epoch.doy2date(2001, 366)),
        ("Epoch.rise_set", "latitude 70", lambda: Epoch(2000, 1, 1).rise_set(A(70.0), A(0.0))),
        ("Sun.get_equinox_solstice", "year 3001", lambda: Sun.get_equinox_solstice(3001, "spring")),
        ("Sun.get_equinox_solstice", "year -1001", lambda: Sun.get_equinox_solstice(-1001, "winter")),
        ("Sun.get_equinox_solstice", "unknown target", lambda: Sun.get_equinox_solstice(2000, "foo")),
        ("Moon.moon_phase", "unknown target", lambda: Moon.moon_phase(Epoch(2000, 1, 1), "foo")),
        ("Moon.moon_passage_nodes", "unknown target", lambda: Moon.moon_passage_nodes(Epoch(2000, 1, 1), "up")),
        ("Angle.__init__", "string", lambda: A("x")),
        ("Angle.__init__", "None", lambda: A(None)),
        ("Coordinates.planetary_conjunction", "two entries", lambda: C.planetary_conjunction([A(1), A(2)], [A(1), A(2)], [A(1), A(2)], [A(1), A(2)])),
        ("Coordinates.planetary_conjunction", "uneven lists", lambda: C.planetary_conjunction([A(1), A(2), A(3)], [A(1), A(2)], [A(1), A(2), A(3)], [A(1), A(2), A(3)])),
        ("Interpolation.__init__", "duplicated abscissa", lambda: Interpolation([1, 1, 2], [3, 4, 5])),
        ("Interpolation.__call__", "outside the table", lambda: Interpolation([1, 2, 3], [3, 4, 5])(7.0)),
        ("Interpolation.derivative", "outside a two-point table", lambda: Interpolation([0.5, 1.85], [1.0, -1.7]).derivative(2.35)),
        ("Coordinates.straight_line", "float in sixth place", lambda: C.straight_line(A(1), A(2), A(3), A(4), A(5), 6.0)),
        ("Coordinates.angular_separation", "float in fourth place", lambda: C.angular_separation(A(1), A(2), A(3), 4.0)),
        ("Pluto.geocentric_position", "year 1800", lambda: Pluto.geocentric_position(Epoch(1800, 1, 1))),
    ]
