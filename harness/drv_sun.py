"""Driver for C14: seasons, equation of time, sunrise/sunset, general rise/transit/set."""
import math
import random
from core import fx

BAD = fx(-99999)
SEASONS = ["spring", "summer", "autumn", "winter"]


_SHARED = {}


def _oc(ex):
    n = type(ex).__name__
    return n if n in ("TypeError", "ValueError", "ZeroDivisionError") else "other:" + n


def _w180(x):
    return (x + 180.0) % 360.0 - 180.0


def gen_seasons(y0, y1):
    from pymeeus.Epoch import Epoch
    from pymeeus.Sun import Sun
    for y in range(y0, y1 + 1):
        inr = 1 if -1000 <= y <= 3000 else 0
        for k, name in enumerate(SEASONS):
            ev = {"k": "season", "y": y, "kq": k, "inr": inr}
            try:
                if (y + k) % 3 == 0:
                    # the caller owns what it was given: an earlier result for the same year and season is re-targeted
                    # with set() before the instant is asked for again
                    prev = Sun.get_equinox_solstice(y, name)
                    prev.set(2451545.0)
                e = Sun.get_equinox_solstice(y, name)
                lon, lat, r = Sun.apparent_geocentric_position(Epoch(e.jde()))
                ev["r"], ev["lon"], ev["oc"], ev["rf"] = fx(e.jde()), fx(float(lon)), "ok", e.jde()
            except Exception as ex:
                ev["r"], ev["lon"], ev["oc"], ev["rf"] = BAD, BAD, _oc(ex), 0.0
            yield ev


def gen_far_years():
    """'other years raise ValueError': also years far outside the range, up to integers no float can hold"""
    from pymeeus.Sun import Sun
    far = [3001, 3002, 5000, 10 ** 4, 10 ** 6, 2 ** 31, 2 ** 53 + 1, 2 ** 64, 10 ** 30, 10 ** 308, 2 ** 1024, 10 ** 309, 10 ** 400]
    for y in far + [-v for v in far] + [-1001, -1002]:
        for k, name in enumerate(SEASONS):
            ev = {"k": "season", "y": 99999 if y > 0 else -99999, "kq": k, "inr": 0, "yrepr": repr(y)[:40], "r": BAD, "lon": BAD, "rf": 0.0}
            try:
                Sun.get_equinox_solstice(y, name)
                ev["oc"] = "ok"
            except Exception as ex:
                ev["oc"] = _oc(ex)
            yield ev


def gen_eot(y0, ndays):
    """daily equation of time from 1 January of year y0 (0h TT) on"""
    from pymeeus.Epoch import Epoch
    from pymeeus.Sun import Sun
    j0 = Epoch(y0, 1, 1).jde()
    for i in range(ndays):
        t = j0 + float(i)
        if i % 3 == 2:
            # the run's ONE long-lived Epoch, set() to this day after it has been asked the equation of time of earlier days
            e = _SHARED.setdefault("e", Epoch(2451545.0))
            e.set(t)
        else:
            e = Epoch(t)
        ev = {"k": "eot", "t": fx(t), "tf": t, "y": int(e.get_date()[0])}
        try:
            m, s = Sun.equation_of_time(e)
            ev["m"], ev["s"], ev["oc"], ev["sf"] = int(m), fx(float(s)), "ok", float(s)
        except Exception as ex:
            ev["m"], ev["s"], ev["oc"] = 0, BAD, _oc(ex)
        yield ev


def _sun_alt_ha(jde_tt, lat, lon_east):
    """altitude and hour angle (deg) of the Sun's centre from the library's own position,
    sidereal time and horizontal conversion (wiring only)"""
    from pymeeus.Epoch import Epoch
    from pymeeus.Angle import Angle
    from pymeeus.Sun import Sun
    from pymeeus.Coordinates import true_obliquity, nutation_longitude, ecliptical2equatorial, equatorial2horizontal
    e = Epoch(jde_tt)
    lon, lat_s, r = Sun.apparent_geocentric_position(e)
    eps = true_obliquity(Epoch(jde_tt))
    ra, dec = ecliptical2equatorial(lon, lat_s, eps)
    y, m, d = Epoch(jde_tt).get_date()
    dt = (42.184 + Epoch.leap_seconds(y, m)) if y >= 1972 else Epoch.tt2ut(y, m)
    ut = Epoch(jde_tt - dt / 86400.0)
    theta = ut.apparent_sidereal_time(eps, nutation_longitude(Epoch(jde_tt))) * 360.0
    ha = Angle(theta + lon_east - float(ra))
    az, alt = equatorial2horizontal(ha, dec, Angle(lat))
    return float(alt), _w180(float(ha))


def gen_riseset(seed, shard, n):
    from pymeeus.Epoch import Epoch
    from pymeeus.Angle import Angle
    rng = random.Random("rs/%s/%s" % (seed, shard))
    for _ in range(n):
        y = rng.randrange(1900, 2101)
        m = rng.randrange(1, 13)
        d = rng.randrange(1, 29)
        lat = rng.choice([rng.uniform(-66.5, 66.5), 0.0, 66.5, -66.5, rng.uniform(60, 66.5), rng.uniform(-66.5, -60)])
        lon = rng.choice([rng.uniform(-180, 180), 0.0, 180.0, -180.0])
        h = rng.choice([0, 0.0, rng.uniform(0, 5000), 5000])
        # "any date": the Epoch may carry a time of day (the rising and setting of THAT date are asked for)
        frac = rng.choice([0.0, 0.0, 0.5, rng.uniform(0.0, 0.9999)])
        ev = {"k": "sun", "fracf": frac, "y": y, "m": m, "d": d, "lat": lat, "lonf": lon, "hf": float(h), "h": fx(h), "w": fx(math.sqrt(h)),
              "abslat": abs(lat), "mon": m}
        try:
            rise, sett = Epoch(y, m, d + frac).rise_set(Angle(lat), Angle(lon), h)
            ar, hr = _sun_alt_ha(rise.jde(), lat, lon)
            as_, hs = _sun_alt_ha(sett.jde(), lat, lon)
            ev.update(oc="ok", rise=fx(rise.jde()), set=fx(sett.jde()), altr=fx(ar), alts=fx(as_), hr=fx(hr), hs=fx(hs),
                      altrf=ar, altsf=as_)
            ev.update(amin=fx(0), amax=fx(0))
        except Exception as ex:
            j0 = Epoch(y, m, d).jde()
            alts = [_sun_alt_ha(j0 + i / 48.0, lat, lon)[0] for i in range(-12, 60)]
            ev.update(oc=_oc(ex) + ":" + str(ex)[:30], rise=BAD, set=BAD, altr=BAD, alts=BAD, hr=BAD, hs=BAD,
                      amin=fx(min(alts)), amax=fx(max(alts)), aminf=min(alts), amaxf=max(alts))
        yield ev


def gen_rts(seed, shard, n):
    from pymeeus.Angle import Angle
    from pymeeus.Coordinates import times_rise_transit_set
    rng = random.Random("rts/%s/%s" % (seed, shard))
    for _ in range(n):
        lat = rng.choice([rng.uniform(-89, 89), rng.uniform(-66, 66), 0.0, 42.3333])
        lonw = rng.uniform(-180, 180)
        a2 = rng.choice([rng.uniform(0, 360), rng.uniform(0, 2), rng.uniform(358, 360), 0.0])
        d2 = rng.uniform(-89, 89) if rng.random() < 0.3 else rng.uniform(-30, 30)
        ra_rate = rng.uniform(-1.5, 1.5)
        dec_rate = rng.uniform(-0.5, 0.5)
        h0 = rng.choice([-0.5667, -0.8333, 0.125])
        dt = rng.choice([56.0, 69.0, 0.0, 1570.0, 10580.0, 17190.0, rng.uniform(0.0, 17190.0)])        # present-day and historical Delta-T (year -500: 17190 s)
        th0 = rng.uniform(0, 360)
        # a curved track now and then (the three tabular positions define a parabola); among them a body at a stationary
        # point, whose positions of the previous and of the following day coincide
        ca = cdc = 0.0
        cv = rng.random()
        if cv < 0.1:
            ra_rate, dec_rate, ca, cdc = 0.0, 0.0, rng.uniform(-0.6, 0.6), rng.uniform(-0.4, 0.4)
        elif cv < 0.25:
            ca, cdc = rng.uniform(-0.3, 0.3), rng.uniform(-0.2, 0.2)
        if cv > 0.9 and ra_rate != 0.985647:
            # a body that transits (to rounding) exactly at its first-approximation time: the correction of the transit time
            # vanishes in the first pass while those of rising and setting do not
            m0 = ra_rate * (dt / 86400.0) / (0.985647 - ra_rate)
            if 0.0 <= m0 < 1.0:
                th0 = (a2 + lonw - 360.0 * m0) % 360.0
        A = [Angle(a2 + ra_rate * k + ca * k * k) for k in (-1, 0, 1)]
        D = [Angle(max(-89.9, min(89.9, d2 + dec_rate * k + cdc * k * k))) for k in (-1, 0, 1)]
        d2v, d1v, d3v = float(D[1]), float(D[0]), float(D[2])
        rd = (d3v - d1v) / 2.0
        cdv = (d3v + d1v - 2.0 * d2v) / 2.0
        ev = {"k": "rts", "lat": lat, "lonw": lonw, "a2": a2, "d2": d2v, "rar": ra_rate, "h0": h0,
              "ra_wrap": 1 if (min(float(x.to_positive()) for x in [Angle(a2 - ra_rate), Angle(a2), Angle(a2 + ra_rate)]) < 3.0
                               or max(float(Angle(v).to_positive()) for v in (a2 - ra_rate, a2, a2 + ra_rate)) > 357.0) else 0}
        sphi, cphi = math.sin(math.radians(lat)), math.cos(math.radians(lat))
        sd2, cd2 = math.sin(math.radians(d2v)), math.cos(math.radians(d2v))
        ev.update(sphi=fx(sphi), cphi=fx(cphi), sd2=fx(sd2), cd2=fx(cd2), sh0=fx(math.sin(math.radians(h0))),
                  icc=fx(1.0 / (cphi * cd2)))
        zero = fx(0)
        for key in ("sDr", "cDr", "sDs", "cDs", "sHr", "cHr", "sHs", "cHs", "Ht"):
            ev[key] = zero
        try:
            res = times_rise_transit_set(Angle(lonw), Angle(lat), A[0], D[0], A[1], D[1], A[2], D[2], Angle(h0), dt, Angle(th0))
            ev["oc"] = "ok"
        except Exception as ex:
            ev.update(oc=_oc(ex), isnone=0)
            yield ev
            continue
        if res[0] is None:
            ev["isnone"] = 1
            yield ev
            continue
        ev["isnone"] = 0
        mr, mt, ms = [float(v) for v in res]

        def at(hours):
            nn = hours / 24.0 + dt / 86400.0
            alpha = a2 + ra_rate * nn + ca * nn * nn
            delta = d2v + rd * nn + cdv * nn * nn
            theta = th0 + 360.985647 * (hours / 24.0)
            return _w180(theta - lonw - alpha), delta
        Hr, Dr = at(mr)
        Ht, _ = at(mt)
        Hs, Ds = at(ms)
        ev.update(mr=mr, mt=mt, ms=ms, Htf=Ht,
                  sDr=fx(math.sin(math.radians(Dr))), cDr=fx(math.cos(math.radians(Dr))),
                  sDs=fx(math.sin(math.radians(Ds))), cDs=fx(math.cos(math.radians(Ds))),
                  sHr=fx(math.sin(math.radians(Hr))), cHr=fx(math.cos(math.radians(Hr))),
                  sHs=fx(math.sin(math.radians(Hs))), cHs=fx(math.cos(math.radians(Hs))), Ht=fx(Ht))
        yield ev
