"""Driver for C08: Sun/Earth positions across frames, obliquity and nutation."""
import datetime
import math
import random
from core import fx
from drv_sphere import U, F3

J2000 = 2451545.0
B1950 = 2433282.4235


def _jde_of_year(y):
    return J2000 + (y - 2000.0) * 365.25


def _unit_norm(x, y, z):
    n = math.sqrt(x * x + y * y + z * z)
    return [x / n, y / n, z / n], n


def _precess_dir(u, j_from, j_to):
    """the direction u (equatorial unit vector) carried from the mean equinox of j_from to that of j_to
    by the library's own precession_equatorial (wiring only)"""
    from pymeeus.Epoch import Epoch
    from pymeeus.Angle import Angle
    from pymeeus.Coordinates import precession_equatorial
    ra = math.degrees(math.atan2(u[1], u[0]))
    dec = math.degrees(math.asin(max(-1.0, min(1.0, u[2]))))
    r1, d1 = precession_equatorial(Epoch(j_from), Epoch(j_to), Angle(ra), Angle(dec))
    return U(float(r1), float(d1))


def gen_sunearth(seed, shard, n):
    from pymeeus.Epoch import Epoch
    from pymeeus.Angle import Angle
    from pymeeus.Sun import Sun
    from pymeeus.Earth import Earth
    from pymeeus.Moon import Moon
    from pymeeus import Coordinates as C
    rng = random.Random("sunearth/%s/%s" % (seed, shard))
    shared = Epoch(2451545.0)
    for i in range(n):
        wide = rng.random() < 0.4
        y = rng.uniform(-2000, 4000) if wide else rng.uniform(1000, 3000)
        t = _jde_of_year(y)
        inr = 1 if 1000 <= y <= 3000 else 0
        # every third instant: ONE long-lived Epoch of the run, which has answered all of this for the previous instant and
        # is then set() to this one; whatever those answers left behind in it must not be read back now
        if i % 3 == 0:
            def EP(tt, _s=shared):
                _s.set(tt)
                return _s
        else:
            EP = Epoch
        e = EP(t)
        # reflection
        Ls, Bs, Rs = Sun.geometric_geocentric_position(EP(t))
        Le, Be, Re = Earth.geometric_heliocentric_position(EP(t))
        first = rng.random() < 0.5
        for nut in (first, not first):          # the same epoch with both settings, in either order
            Las, Bas, Ras = Sun.apparent_geocentric_position(EP(t), nutation=nut)
            Lae, Bae, Rae = Earth.apparent_heliocentric_position(EP(t), nutation=nut)
            yield {"k": "refl", "yf": y, "tf": t, "nut": 1 if nut else 0, "Ls": fx(float(Ls)), "Bs": fx(float(Bs)), "Rs": fx(Rs),
                   "Le": fx(float(Le)), "Be": fx(float(Be)), "Re": fx(Re), "Las": fx(float(Las)), "Bas": fx(float(Bas)), "Ras": fx(Ras),
                   "Lae": fx(float(Lae)), "Bae": fx(float(Bae)), "Rae": fx(Rae)}
        # frames
        ud, nd = _unit_norm(*Sun.rectangular_coordinates_mean_equinox(EP(t)))
        uJ, nJ = _unit_norm(*Sun.rectangular_coordinates_j2000(EP(t)))
        uB, nB = _unit_norm(*Sun.rectangular_coordinates_b1950(EP(t)))
        jq = t + rng.uniform(-3, 3) * 36525.0
        uE, nE = _unit_norm(*Sun.rectangular_coordinates_equinox(EP(t), Epoch(jq)))
        pJ, pB, pE = _precess_dir(ud, t, J2000), _precess_dir(ud, t, B1950), _precess_dir(ud, t, jq)
        lj, bj, rj = Earth.geometric_heliocentric_position_j2000(EP(t))
        ld, bd, rd = Earth.geometric_heliocentric_position(EP(t), tofk5=False)
        l2, b2 = C.precession_ecliptical(EP(t), Epoch(J2000), ld, bd)
        eps0 = math.radians(float(C.mean_obliquity(EP(t))))
        yield {"k": "frame", "use": F3(U(float(Ls), float(Bs))), "ce0": fx(math.cos(eps0)), "se0": fx(math.sin(eps0)),
               "yf": y, "tf": t, "inr": inr, "R": fx(Rs), "ud": F3(ud), "nd": fx(nd), "uJ": F3(uJ), "nJ": fx(nJ),
               "uB": F3(uB), "nB": fx(nB), "uE": F3(uE), "nE": fx(nE), "pJ": F3(pJ), "pB": F3(pB), "pE": F3(pE),
               "ueJ": F3(U(float(lj), float(bj))), "peJ": F3(U(float(l2), float(b2))), "jq": jq}
        # obliquity and nutation; the date in every accepted form
        e0 = float(C.mean_obliquity(EP(t)))
        et = float(C.true_obliquity(EP(t)))
        dpsi = float(C.nutation_longitude(EP(t)))
        deps = float(C.nutation_obliquity(EP(t)))
        om = math.radians(float(Moon.longitude_mean_ascending_node(EP(t))))
        forms = []
        yy, mm, dd = Epoch(t).get_date()
        for args in ((yy, mm, dd), ((yy, mm, dd),), ([yy, mm, dd],), (Epoch(yy, mm, dd),)):
            try:
                forms.append(float(C.mean_obliquity(*args)))
            except Exception:
                forms.append(-999.0)
        ref = float(C.mean_obliquity(Epoch(yy, mm, dd)))
        if 1 <= yy <= 9999 and dd == int(dd):
            try:
                forms.append(float(C.mean_obliquity(datetime.date(yy, mm, int(dd)))))
            except ValueError:
                pass            # a Julian leap day the proleptic Gregorian date type does not have
        hh, mi, ss = rng.randrange(24), rng.randrange(60), rng.uniform(0, 59)
        sums = []
        tforms = [(yy, mm, dd), (yy, mm, int(dd), hh, mi, ss), ((yy, mm, int(dd), hh, mi, ss),), ([yy, mm, int(dd), hh, mi, ss],),
                  (Epoch(yy, mm, int(dd), hh, mi, ss),)]
        if 1 <= yy <= 9999:
            try:
                tforms.append((datetime.datetime(yy, mm, int(dd), hh, mi, int(ss)),))
            except ValueError:
                pass            # a Julian leap day the proleptic Gregorian datetime does not have
        for args in tforms:
            try:
                sums.append([fx(float(C.mean_obliquity(*args))), fx(float(C.nutation_obliquity(*args))), fx(float(C.true_obliquity(*args)))])
            except Exception:
                sums.append([fx(-999.0), fx(0.0), fx(0.0)])
        yield {"k": "obl", "sums": sums, "yf": y, "tf": t, "T": fx((t - J2000) / 36525.0), "e0": fx(ref), "et": fx(float(C.true_obliquity(Epoch(yy, mm, dd)))),
               "dpsi": fx(float(C.nutation_longitude(Epoch(yy, mm, dd)))), "deps": fx(float(C.nutation_obliquity(Epoch(yy, mm, dd)))),
               "sO": fx(math.sin(math.radians(float(Moon.longitude_mean_ascending_node(Epoch(yy, mm, dd)))))),
               "cO": fx(math.cos(math.radians(float(Moon.longitude_mean_ascending_node(Epoch(yy, mm, dd)))))),
               "forms": [fx(v) for v in forms]}
        # low-accuracy formulas, 1800-2200
        y2 = rng.uniform(1800, 2200)
        t2 = _jde_of_year(y2)
        tc, rc = Sun.true_longitude_coarse(Epoch(t2))
        lc, rc2 = Sun.apparent_longitude_coarse(Epoch(t2))
        rac, dc, rc3 = Sun.apparent_rightascension_declination_coarse(Epoch(t2))
        tv, bv, rv = Sun.geometric_geocentric_position(Epoch(t2))
        lv, bv2, rv2 = Sun.apparent_geocentric_position(Epoch(t2))
        rav, dv = C.ecliptical2equatorial(lv, bv2, C.true_obliquity(Epoch(t2)))
        yield {"k": "coarse", "yf": y2, "tf": t2, "inr": 1, "lc": fx(float(lc)), "lv": fx(float(lv)), "tc": fx(float(tc)), "tv": fx(float(tv)),
               "rc": fx(rc), "rv": fx(rv), "rac": fx(float(rac)), "rav": fx(float(rav)), "dc": fx(float(dc)), "dv": fx(float(dv))}


def gen_coarse_solstices(years):
    """the low-accuracy solar formulas on the days around both solstices (where a longitude error is amplified most in right
    ascension: d(alpha) = d(lambda) / cos(eps)) of every given year, and around both equinoxes"""
    from pymeeus.Epoch import Epoch
    from pymeeus.Sun import Sun
    from pymeeus import Coordinates as C
    for y in years:
        for (mo, d0) in ((3, 18), (6, 18), (9, 20), (12, 19)):
            for d in range(d0, d0 + 7):
                t2 = Epoch(y, mo, d + 0.3).jde()
                tc, rc = Sun.true_longitude_coarse(Epoch(t2))
                lc, rc2 = Sun.apparent_longitude_coarse(Epoch(t2))
                rac, dc, rc3 = Sun.apparent_rightascension_declination_coarse(Epoch(t2))
                tv, bv, rv = Sun.geometric_geocentric_position(Epoch(t2))
                lv, bv2, rv2 = Sun.apparent_geocentric_position(Epoch(t2))
                rav, dv = C.ecliptical2equatorial(lv, bv2, C.true_obliquity(Epoch(t2)))
                yield {"k": "coarse", "yf": float(y), "tf": t2, "inr": 1, "lc": fx(float(lc)), "lv": fx(float(lv)), "tc": fx(float(tc)),
                       "tv": fx(float(tv)), "rc": fx(rc), "rv": fx(rv), "rac": fx(float(rac)), "rav": fx(float(rav)),
                       "dc": fx(float(dc)), "dv": fx(float(dv))}
