"""Driver for C11: kepler_equation and the two-body helper functions."""
import math
import random
from core import fx

BAD = fx(-99999)


def _oc(ex):
    n = type(ex).__name__
    return n if n in ("TypeError", "ValueError", "ZeroDivisionError") else "other:" + n


def _sc(x_deg):
    r = math.radians(x_deg)
    return fx(math.sin(r)), fx(math.cos(r))


def gen_kepler(seed, shard, n):
    from pymeeus.Angle import Angle
    from pymeeus.Coordinates import kepler_equation
    rng = random.Random("kepler/%s/%s" % (seed, shard))
    es = [0.0, 1e-9, 0.0167, 0.1, 0.2056, 0.5, 0.8, 0.9, 0.95, 0.967, 0.99, 0.999, 0.9999, 0.999999]
    for _ in range(n):
        e = rng.choice(es) if rng.random() < 0.6 else rng.uniform(0, 0.999999)
        r = rng.random()
        if r < 0.3:
            M = 180.0 * rng.randint(-55, 55) + rng.choice([0.0, 1e-9, -1e-9, 1e-6, -1e-6, 1e-3, -1e-3, 3e-7, -3e-7, 2e-7, 5e-7,
                                                           4e-4, -0.3, rng.choice([1, -1]) * 10 ** rng.uniform(-8, -3)])
        elif r < 0.6:
            M = rng.uniform(-1e4, 1e4)
        elif r < 0.8:
            M = rng.uniform(-360, 360)
        else:
            M = float(rng.randint(-10000, 10000))
        ev = {"k": "kep", "ef": e, "Mf": M, "e": fx(e), "M": fx(M)}
        try:
            Ma = Angle(M)
            M = Ma()                                   # the value the Angle holds (after its own reduction)
            ev["Mf"], ev["M"] = M, fx(M)
            if rng.random() < 0.2:
                Ma.set_tolerance(rng.choice([1e-3, 0.5, 0.0]))      # the Angle's comparison tolerance is not part of its value
            E, v = kepler_equation(e, Ma)
            if rng.random() < 0.5:
                # the caller goes on using its own Angle (re-targets it for the next step) before it looks at the results:
                # the anomalies returned for M must not follow the object
                Ma.set(M + 137.03125)
            E, v = float(E), float(v)
            ev.update(oc="ok", E=fx(E), v=fx(v), Ef=E, vf=v)
            ev["sE"], ev["cE"] = _sc(E)
            ev["sv"], ev["cv"] = _sc(v / 2.0)
            ev["sE2"], ev["cE2"] = _sc(E / 2.0)
            ev["w"] = fx(math.sqrt((1.0 + e) / (1.0 - e)))
        except Exception as ex:
            z = fx(0)
            ev.update(oc=_oc(ex), E=z, v=z, sE=z, cE=z, sv=z, cv=z, sE2=z, cE2=z, w=z)
        yield ev


def gen_twobody(seed, shard, n):
    from pymeeus.Angle import Angle
    from pymeeus.Epoch import Epoch
    from pymeeus import Coordinates as C
    rng = random.Random("twobody/%s/%s" % (seed, shard))
    for _ in range(n):
        a = rng.choice([0.3, 1.0, 5.2, 30.0, 100.0, rng.uniform(0.3, 100.0)])
        e = rng.choice([0.0, 0.0167, 0.2, 0.5, 0.9, 0.949999, 0.95, 0.96, 0.99, 0.999999, rng.uniform(0, 0.999999)])
        a, e = float(a), float(e)
        yield {"k": "vel", "af": a, "ef": e, "vq": fx(C.velocity(a * (1.0 - e), a)), "vQ": fx(C.velocity(a * (1.0 + e), a)),
               "vp": fx(C.velocity_perihelion(e, a)), "va": fx(C.velocity_aphelion(e, a)), "vc": fx(C.velocity(a, a))}
        ev = {"k": "len", "af": a, "ef": e, "a": fx(a), "e": fx(e), "len": fx(C.length_orbit(e, a)),
              "b": fx(a * math.sqrt(1.0 - e * e)), "sw": 0, "lenm": fx(0)}
        if e == 0.95:
            ev["sw"], ev["lenm"] = 1, fx(C.length_orbit(math.nextafter(0.95, 0.0), a))
        yield ev
        # triangle-feasible distances
        r = rng.choice([rng.uniform(0.3, 40.0), rng.uniform(0.3, 0.95)])
        R = rng.uniform(0.98, 1.02)
        d = rng.uniform(abs(r - R) + 1e-6, r + R - 1e-6)
        thin = rng.random()
        if thin < 0.15 and r < R:
            # a thin triangle on the inferior-conjunction side: phase angle close to 180 degrees, fraction close to 0
            d = R - r + 10 ** rng.uniform(-9, -3)
        elif thin < 0.3:
            # close to opposition / superior conjunction: phase angle close to 0, fraction close to 1
            d = (r - R if r > R else r + R) + (1 if r > R else -1) * 10 ** rng.uniform(-9, -3)
            if not (abs(r - R) < d < r + R):
                d = rng.uniform(abs(r - R) + 1e-6, r + R - 1e-6)
        i = float(C.phase_angle(r, d, R))
        k = C.illuminated_fraction(r, d, R)
        yield {"k": "pha", "rf": r, "df": d, "Rf": R, "r": fx(r), "d": fx(d), "R": fx(R), "i": fx(i), "kf": fx(k),
               "ci": fx(math.cos(math.radians(i)))}
        # node passage on an elliptic orbit
        om = rng.choice([0.0, 90.0, 180.0, 270.0, rng.uniform(0, 360)])
        e2 = rng.choice([0.0167, 0.2, 0.5, 0.9, rng.uniform(0.001, 0.95)])
        a2 = rng.uniform(0.3, 100.0)
        asc = rng.random() < 0.5
        t0 = Epoch(2451545.0 + rng.uniform(-20000, 20000))
        tt, rr = C.passage_nodes_elliptic(Angle(om), e2, a2, Epoch(t0.jde()), asc)
        dt = tt.jde() - t0.jde()
        nmo = 0.9856076686 / (a2 * math.sqrt(a2))
        Mn = nmo * dt
        E2, v2 = C.kepler_equation(e2, Angle(Mn))
        yield {"k": "node", "omf": om, "ef": e2, "af": a2, "asc": 1 if asc else 0, "omega": fx(om), "e": fx(e2), "a": fx(a2),
               "sa": fx(math.sqrt(a2)), "dt": fx(dt), "rr": fx(rr), "Mn": fx(Mn), "E2": fx(float(E2)), "v2": fx(float(v2)),
               "cE": fx(math.cos(math.radians(float(E2))))}
