"""pytest plugin (loaded with `-p pytest_tracer`, PYTHONPATH=<repo>:/verif/harness): records every OUTERMOST call of a public
pymeeus callable made while the repository's own test suite runs, in the event format of Trace_Api.tla.

No change to the repository: the public callables of the introspected catalogue are wrapped at session start.  A call made
by the library itself while a public call is active is an internal step of that call (depth > 0) and is not logged.  The
linearisation point is the return (or raise) of the outermost call; the record carries digests of the argument objects,
of the receiver and of all module-level state before and after, the outcome, and the call signature.

The trace file is given by VERIF_TEST_TRACE.  cls = "test": the suite also passes ill-typed arguments on purpose, so the
totality clauses do not apply; frame conditions and determinism (equal signature => equal outcome, across the whole
session, whatever ran in between) do."""
import functools
import json
import os

import api_catalogue as A
import drv_api as D

_state = {"depth": 0, "out": None, "G": None, "n": 0}


def _wrap(entry, orig, is_method):
    @functools.wraps(orig)
    def wrapper(*args, **kwargs):
        st = _state
        if st["depth"] > 0 or st["out"] is None:
            return orig(*args, **kwargs)
        st["depth"] += 1
        try:
            if is_method and args:
                selfobj, rest = args[0], tuple(args[1:])
                fn = functools.partial(orig, selfobj)
            else:
                selfobj, rest, fn = None, tuple(args), orig
            ev, res, exc = D.observe_call(entry, fn, rest, kwargs, selfobj, st["G"], "test", "")
            st["n"] += 1
            st["out"].write(json.dumps(ev) + "\n")
        finally:
            st["depth"] -= 1
        if exc is not None:
            raise exc
        return res
    wrapper._verif_wrapped = True
    return wrapper


def _install():
    skip = ("__repr__", "__str__", "__hash__", "__init__", "__call__", "__len__")
    for entry in A.callables():
        qn, m, cls, attr, kind = entry
        if attr in skip:
            continue
        mod = A._mod(m)
        owner = getattr(mod, cls) if cls else mod
        raw = owner.__dict__.get(attr) if cls else getattr(owner, attr, None)
        if raw is None:
            continue
        if isinstance(raw, staticmethod):
            setattr(owner, attr, staticmethod(_wrap(entry, raw.__func__, False)))
        elif isinstance(raw, classmethod):
            continue
        elif callable(raw) and not getattr(raw, "_verif_wrapped", False):
            setattr(owner, attr, _wrap(entry, raw, bool(cls)))
    # module-level functions imported by name into the test modules are re-bound there too
    import sys
    for name, tm in list(sys.modules.items()):
        if not name.startswith("pymeeus"):
            continue
        for entry in A.callables():
            qn, m, cls, attr, kind = entry
            if cls:
                continue
            src = A._mod(m)
            if tm is not src and getattr(tm, attr, None) is not None and getattr(getattr(tm, attr), "__wrapped__", None) is None:
                w = getattr(src, attr)
                if getattr(w, "_verif_wrapped", False) and getattr(tm, attr) is getattr(w, "__wrapped__", None):
                    setattr(tm, attr, w)


def pytest_sessionstart(session):
    path = os.environ.get("VERIF_TEST_TRACE")
    if not path:
        return
    _install()
    _state["G"] = D.Globals()
    _state["out"] = open(path, "w")


def pytest_collection_modifyitems(session, config, items):
    # test modules do `from pymeeus.X import f`: they were imported during collection, after _install(), so they already
    # see the wrappers; nothing to do here (kept for clarity)
    return


def pytest_sessionfinish(session, exitstatus):
    if _state["out"] is not None:
        _state["out"].close()
        _state["out"] = None
