# -*- coding: utf-8 -*-
"""Core of the TLA+ conformance machinery for pymeeus.

 * lossless number transport (Fix limbs, see spec/Fix.tla)
 * TLC runner (model-checking runs and trace-validation runs)
 * shard scheduling (driver writes ndjson, TLC validates it), 16 in parallel
 * verdict collection, known-findings matching, replay files, evidence files

Exit codes of a check: 0 property held on everything explored, 1 violation(s)
(VIOLATION lines printed), 2 machinery failure.
"""
import hashlib
import json
import math
import os
import re
import subprocess
import sys
import time
from fractions import Fraction
from concurrent.futures import ProcessPoolExecutor, as_completed

VERIF = os.path.dirname(os.path.dirname(os.path.abspath(__file__)))
SPEC = os.path.join(VERIF, "spec")
WORK = os.path.join(VERIF, "work")
REPLAYS = os.path.join(VERIF, "replays")
EVID = os.path.join(VERIF, "evidence")
if os.environ.get("VERIF_REPO"):      # development runs against a scratch worktree never touch the real evidence / replays
    _tag = hashlib.sha1(os.environ["VERIF_REPO"].encode()).hexdigest()[:8]
    REPLAYS = os.path.join(VERIF, "work", "mut_" + _tag, "replays")
    EVID = os.path.join(VERIF, "work", "mut_" + _tag, "evidence")
KNOWN = os.path.join(VERIF, "KNOWN_FINDINGS.txt")
JAR = "/opt/veriftools/tla/tla2tools.jar:/opt/veriftools/tla/CommunityModules-deps.jar"
NCPU = int(os.environ.get("VERIF_JOBS", "16"))

# --------------------------------------------------------------------------
# Fix transport: s * sum d[i] * 1e4^(i-1-4), d[0] least significant, 13 limbs
# --------------------------------------------------------------------------
FIX_W = 13
FIX_NF = 4
_SCALE = 10 ** (4 * FIX_NF)
_LIM = 10 ** (4 * FIX_W)


def fx(x):
    """Representational conversion of a finite int/float/Fraction to Fix
    (truncation toward zero at 1e-16).  No arithmetic on the value."""
    if isinstance(x, float):
        if x != x or x in (float("inf"), float("-inf")):
            raise ValueError("non-finite value cannot be transported")
        num, den = x.as_integer_ratio()
    elif isinstance(x, int):
        num, den = x, 1
    else:
        fr = Fraction(x)
        num, den = fr.numerator, fr.denominator
    s = 1
    if num < 0:
        s = -1
        num = -num
    n = (num * _SCALE) // den
    if n >= _LIM:
        raise OverflowError("value too large for Fix: %r" % (x,))
    d = [0] * FIX_W
    i = 0
    while n:
        n, d[i] = divmod(n, 10000)
        i += 1
    if i == 0:
        s = 1
    return {"s": s, "d": d}


def unfx(f):
    n = 0
    for limb in reversed(f["d"]):
        n = n * 10000 + limb
    return f["s"] * Fraction(n, _SCALE)


def sgn(x):
    """sign of a number including signed zero (for floats)"""
    if isinstance(x, float):
        return int(math.copysign(1.0, x)) if x == 0.0 else (1 if x > 0 else -1)
    return (x > 0) - (x < 0)


def finite(x):
    try:
        return math.isfinite(x)
    except TypeError:
        return False


def outcome_of(exc):
    n = type(exc).__name__
    if n in ("TypeError", "ValueError", "ZeroDivisionError"):
        return n
    return "other:" + n


# --------------------------------------------------------------------------
# TLC
# --------------------------------------------------------------------------
class TLCResult(object):
    def __init__(self):
        self.rc = None
        self.out = ""
        self.generated = 0
        self.distinct = 0
        self.verdicts = []     # (line, [clauses])
        self.ok = False        # machinery ok (completed, postcondition held)
        self.error = None
        self.wall = 0.0
        self.violated = None   # name of violated invariant/property (MC runs)
        self.coverage = {}


_RE_STATES = re.compile(r"(\d+) states generated, (\d+) distinct states found")
# TLC pretty-prints long values over several lines: match across newlines
_RE_VERDICT = re.compile(r'<<\s*"VERDICT",\s*(\d+),\s*\{(.*?)\}\s*>>', re.S)
_RE_INV = re.compile(r"Error: Invariant (\S+) is violated")
_RE_PROP = re.compile(r"Error: (?:Action|Temporal) propert(?:y|ies) (\S+)?")


def run_tlc(module, cfg, workdir, env=None, workers=1, heap="3g", timeout=3600,
            extra=None, deadlock=False):
    """Run TLC on spec/<module>.tla with spec/<cfg>.  Returns TLCResult."""
    os.makedirs(workdir, exist_ok=True)
    cmd = ["java", "-XX:+UseSerialGC" if workers == 1 else "-XX:+UseParallelGC", "-Xmx" + heap, "-Xss64m",
           "-Djava.io.tmpdir=" + workdir,         # SANY unpacks the standard modules there: nothing is left under /tmp
           "-cp", JAR, "tlc2.TLC",
           "-workers", str(workers), "-metadir", os.path.join(workdir, "meta"),
           "-noGenerateSpecTE", "-config", os.path.join(SPEC, cfg)]
    if not deadlock:
        cmd.append("-deadlock")     # -deadlock DISABLES deadlock checking
    if extra:
        cmd += extra
    cmd.append(os.path.join(SPEC, module + ".tla"))
    e = dict(os.environ)
    if env:
        e.update(env)
    res = TLCResult()
    t0 = time.time()
    try:
        p = subprocess.run(cmd, cwd=workdir, env=e, stdout=subprocess.PIPE,
                           stderr=subprocess.STDOUT, timeout=timeout)
        res.rc = p.returncode
        res.out = p.stdout.decode("utf-8", "replace")
    except subprocess.TimeoutExpired as ex:
        res.rc = -9
        res.out = (ex.stdout or b"").decode("utf-8", "replace")
        res.error = "timeout"
    res.wall = time.time() - t0
    for m in _RE_VERDICT.finditer(res.out):
        cl = [c.strip().strip('"') for c in m.group(2).split(",") if c.strip()]
        res.verdicts.append((int(m.group(1)), cl))
    for line in res.out.splitlines():
        m = _RE_STATES.search(line)
        if m:
            res.generated = int(m.group(1))
            res.distinct = int(m.group(2))
        m = _RE_INV.search(line)
        if m:
            res.violated = m.group(1)
    if res.error is None:
        if "Model checking completed. No error has been found." in res.out:
            res.ok = True
        elif res.violated:
            res.error = "invariant " + res.violated
        else:
            tail = "\n".join(res.out.splitlines()[-25:])
            res.error = "TLC rc=%s\n%s" % (res.rc, tail)
    return res


# --------------------------------------------------------------------------
# plan objects
# --------------------------------------------------------------------------
class MC(object):
    """A design-level model-checking run: spec module + cfg."""
    def __init__(self, module, cfg, workers=NCPU, heap="8g", env=None, note="", extra=None):
        self.module, self.cfg, self.workers, self.heap = module, cfg, workers, heap
        self.env = env or {}
        self.note = note
        self.extra = extra


class Apa(MC):
    """A symbolic (Apalache) run: `init` /\\ `length` steps of Next imply `inv`.  length=0: init => inv;
    length=1 with an inductive init: the induction step.  No state counts (the result is a proof over unbounded data)."""
    def __init__(self, module, init, inv, length, note="", timeout=1500):
        MC.__init__(self, module, "%s:%s=>%s@%d" % (module, init, inv, length), workers=1, note=note)
        self.init, self.inv, self.length, self.timeout = init, inv, length, timeout


def run_apalache(apa, workdir):
    res = TLCResult()
    os.makedirs(workdir, exist_ok=True)
    t0 = time.time()
    cmd = ["apalache-mc", "check", "--init=" + apa.init, "--inv=" + apa.inv, "--length=%d" % apa.length,
           "--out-dir=" + os.path.join(workdir, "out"), os.path.join(SPEC, apa.module + ".tla")]
    try:
        p = subprocess.run(cmd, cwd=workdir, stdout=subprocess.PIPE, stderr=subprocess.STDOUT, timeout=apa.timeout,
                           env=dict(os.environ, JVM_ARGS="-Xmx3g", TMPDIR=workdir))     # the launcher makes its SANY directory with mktemp -t
        res.out = p.stdout.decode("utf-8", "replace")
        res.rc = p.returncode
        if "The outcome is: NoError" in res.out and p.returncode == 0:
            res.ok = True
        else:
            res.error = "apalache rc=%s\n%s" % (p.returncode, "\n".join(res.out.splitlines()[-12:]))
    except subprocess.TimeoutExpired:
        res.error = "apalache timeout after %ss" % apa.timeout
    res.wall = time.time() - t0
    return res


class Shard(object):
    """A conformance trace: gen(**args) yields events (dicts) obtained by
    calling the real library; the trace spec (module, cfg) judges them."""
    def __init__(self, name, gen, args, module, cfg, heap="3g"):
        self.name, self.gen, self.args = name, gen, args
        self.module, self.cfg, self.heap = module, cfg, heap


def _write_events(path, events, limit=None, nontrivial=None):
    n = 0
    keys = set()
    with open(path, "w") as f:
        for ev in events:
            f.write(json.dumps(ev, separators=(",", ":")))
            f.write("\n")
            n += 1
            if nontrivial is not None:
                k = nontrivial(ev)
                if k is not None:
                    keys.add(k)
            if limit is not None and n >= limit:
                break
    return n, len(keys)


def _rundir(pid):
    """scratch directory of THIS invocation (two concurrent runs of one check must not share trace files)"""
    return os.environ.get("VERIF_RUNDIR") or os.path.join(WORK, pid)


def _run_shard(pid, shard, limit=None, tag="", nontrivial=None):
    """Executed in a worker process: drive the implementation, then TLC."""
    sys.path.insert(0, os.path.join(VERIF, "harness"))
    wd = os.path.join(_rundir(pid), shard.name + tag)
    os.makedirs(wd, exist_ok=True)
    path = os.path.join(wd, "trace.ndjson")
    t0 = time.time()
    try:
        n, nt = _write_events(path, shard.gen(**shard.args), limit, nontrivial)
    except Exception as ex:            # driver crash = machinery failure
        import traceback
        return dict(name=shard.name, n=0, error="driver: " + traceback.format_exc(), nt=0,
                    verdicts=[], generated=0, distinct=0, path=path, tdrv=0, ttlc=0)
    t1 = time.time()
    if n == 0:
        return dict(name=shard.name, n=0, error=None, verdicts=[], generated=0, nt=0,
                    distinct=0, path=path, tdrv=t1 - t0, ttlc=0)
    r = run_tlc(shard.module, shard.cfg, wd, env={"TRACE_FILE": path},
                workers=1, heap=shard.heap)
    err = None
    if not r.ok and "FIX_OVERFLOW" in (r.out or ""):
        # an intermediate value left the 1e36 range of Fix: reported as a clause at the line TLC had reached
        ls = re.findall(r"/\\ l = (\d+)", r.out)
        r.verdicts.append((int(ls[-1]) if ls else 1, ["FIX_OVERFLOW"]))
    elif not r.ok:
        err = r.error
    elif r.distinct != n + 1:
        err = "trace not fully consumed: %d states for %d events" % (r.distinct, n)
    return dict(name=shard.name, n=n, error=err, verdicts=r.verdicts, nt=nt,
                generated=r.generated, distinct=r.distinct, path=path,
                tdrv=t1 - t0, ttlc=r.wall)


def read_event(path, line):
    with open(path) as f:
        for i, s in enumerate(f, 1):
            if i == line:
                return json.loads(s)
    return None


# --------------------------------------------------------------------------
# known findings
# --------------------------------------------------------------------------
class Known(object):
    def __init__(self, pid, clause, site, match, text):
        self.pid, self.clause, self.site, self.match, self.text = pid, clause, site, match, text
        self.hits = 0

    def covers(self, pid, clause, ev):
        if pid != self.pid or clause != self.clause:
            return False
        if self.site != "*" and ev.get("site", ev.get("k")) != self.site:
            return False
        if not self.match or self.match == "*":
            return True
        env = dict(ev)
        try:
            return bool(eval(self.match, {"__builtins__": {}, "abs": abs, "len": len,
                                          "min": min, "max": max, "inset": _inset}, env))
        except Exception:
            return False


_SETS = {}


def _inset(name, *key):
    """membership of an input tuple in a committed list of failing inputs (known/<name>.json)"""
    if name not in _SETS:
        with open(os.path.join(VERIF, "known", name + ".json")) as f:
            _SETS[name] = set(tuple(x) for x in json.load(f))
    return tuple(key) in _SETS[name]


def load_known():
    out = []
    if not os.path.exists(KNOWN):
        return out
    for raw in open(KNOWN):
        s = raw.strip()
        if not s.startswith("known:"):
            continue
        body, _, text = s[len("known:"):].partition(" -- ")
        kv = {}
        # match= is last and may contain spaces
        m = re.match(r"\s*property=(\S+)\s+clause=(\S+)\s+site=(\S+)\s+match=(.*)$", body)
        if not m:
            continue
        out.append(Known(m.group(1), m.group(2), m.group(3), m.group(4).strip(), text.strip()))
    return out


# --------------------------------------------------------------------------
# the check driver
# --------------------------------------------------------------------------
def _stable_hash(obj):
    return hashlib.sha1(json.dumps(obj, sort_keys=True).encode()).hexdigest()[:12]


def run_check(pid, plan, tier, seed, replay=None):
    """plan(tier, seed) -> dict(mc=[MC], shards=[Shard], level=..., rule=..., assumptions=[...],
                                nontrivial=callable(ev)->key or None)"""
    from concurrent.futures import ThreadPoolExecutor
    t0 = time.time()
    P = plan(tier, seed)
    os.environ["VERIF_RUNDIR"] = os.path.join(WORK, pid, "%s_%d" % (tier, os.getpid()))
    os.makedirs(_rundir(pid), exist_ok=True)
    import atexit, shutil
    atexit.register(shutil.rmtree, _rundir(pid), True)
    machinery_errors = []
    states = transitions = 0
    mc_info = []

    if replay is not None:
        return _replay(pid, P, replay)

    nontrivial = P.get("nontrivial")
    mcs = P.get("mc", [])
    shards = P.get("shards", [])
    results = []
    if os.environ.get("VERIF_ONLY") and os.environ.get("VERIF_REPO"):
        # development aid (scratch trees only, evidence goes to work/mut_*): run only the shards whose name matches
        import re as _re
        shards = [s for s in shards if _re.search(os.environ["VERIF_ONLY"], s.name)]
        mcs = []

    def _one_mc(mc, idx):
        if isinstance(mc, Apa):
            return mc, run_apalache(mc, os.path.join(_rundir(pid), "apa_%d" % idx))
        wd = os.path.join(_rundir(pid), "mc_%d_%s" % (idx, mc.cfg.replace(".cfg", "")))
        return mc, run_tlc(mc.module, mc.cfg, wd, env=mc.env, workers=mc.workers, heap=mc.heap,
                           timeout=P.get("mc_timeout", 3000), extra=mc.extra)

    # ---- design-level model checking (single-worker runs go in parallel) --
    mc_out = []
    par = [(m, i) for i, m in enumerate(mcs) if m.workers == 1]
    seq = [(m, i) for i, m in enumerate(mcs) if m.workers != 1]
    for (m, i) in seq:
        mc_out.append(_one_mc(m, i))
    with ThreadPoolExecutor(max_workers=NCPU) as tex:
        mfuts = [tex.submit(_one_mc, m, i) for (m, i) in par]
        # ---- conformance traces (worker processes: driver, then TLC) ------
        if shards:
            with ProcessPoolExecutor(max_workers=min(NCPU, len(shards))) as ex:
                futs = [ex.submit(_run_shard, pid, s, None, "", nontrivial) for s in shards]
                for f in as_completed(futs):
                    results.append(f.result())
        for f in mfuts:
            mc_out.append(f.result())
    for (mc, r) in mc_out:
        states += r.distinct
        transitions += r.generated
        mc_info.append(dict(cfg=mc.cfg, env=mc.env, distinct=r.distinct, generated=r.generated,
                            wall_s=round(r.wall, 1), ok=r.ok, note=mc.note))
        if not r.ok:
            machinery_errors.append("MC %s %s: %s" % (mc.cfg, mc.env, r.error))
    results.sort(key=lambda r: r["name"])

    known = [k for k in load_known() if k.pid == pid]
    n_events = 0
    n_viol = 0
    n_nontriv = 0
    viol_lines = []
    seen_cases = set()
    samples = []
    clause_counts = {}
    for r in results:
        n_events += r["n"]
        n_nontriv += r["nt"]
        states += r["distinct"]
        transitions += r["generated"]
        if r["error"]:
            machinery_errors.append("shard %s: %s" % (r["name"], r["error"]))
            continue
        if r["n"] and len(samples) < 4:
            samples.append(read_event(r["path"], 1 + (r["n"] // 2)))
        for (line, clauses) in r["verdicts"]:
            ev = read_event(r["path"], line) or {}
            for c in clauses:
                clause_counts[c] = clause_counts.get(c, 0) + 1
                kf = None
                for k in known:
                    if k.covers(pid, c, ev):
                        kf = k
                        break
                if kf is not None:
                    kf.hits += 1
                    continue
                n_viol += 1
                case = (c, ev.get("site", ev.get("k")))
                if len(viol_lines) < 25 and (case not in seen_cases or len(viol_lines) < 8):
                    seen_cases.add(case)
                    rp = _write_replay(pid, tier, seed, r["name"], line, c, ev)
                    viol_lines.append((c, rp, ev))

    for k in known:
        if k.hits:
            print("KNOWN-FINDING: property=%s clause=%s site=%s %s (%d events)"
                  % (pid, k.clause, k.site, k.text, k.hits))

    wall = time.time() - t0
    cov = dict(
        states=states, transitions=transitions,
        traces_validated_against_impl=len([r for r in results if not r["error"] and r["n"]]),
        evaluations=n_events,
        distinct_nontrivial=n_nontriv if nontrivial is not None else n_events,
        rule=P.get("rule", ""),
        samples=samples[:4] if samples else [dict(note="no trace events")],
        exhaustive=bool(P.get("exhaustive", False)),
        mc_runs=mc_info[:40],
        shards=[dict(name=r["name"], events=r["n"], drv_s=round(r["tdrv"], 1), tlc_s=round(r["ttlc"], 1))
                for r in results][:80],
        clause_hits=clause_counts,
        known_findings_matched=dict((k.clause + "@" + k.site, k.hits) for k in known if k.hits),
    )
    ev = dict(property_id=pid, tier=tier, seed=seed, level=P.get("level", "model_checking"),
              coverage=cov, assumptions=P.get("assumptions", []), wall_s=round(wall, 2),
              violations=n_viol)
    evid = EVID if re.match(r"^C\d\d$", pid) else os.path.join(VERIF, "growth")      # only listed properties write evidence/
    os.makedirs(evid, exist_ok=True)
    if not machinery_errors:
        with open(os.path.join(evid, pid + ".json"), "w") as f:
            json.dump(ev, f, indent=1, sort_keys=True)
            f.write("\n")

    print("[%s %s seed=%d] mc_runs=%d states=%d transitions=%d traces=%d events=%d violations=%d wall=%.1fs"
          % (pid, tier, seed, len(mc_info), states, transitions, cov["traces_validated_against_impl"],
             n_events, n_viol, wall))
    if machinery_errors:
        for m in machinery_errors[:10]:
            print("MACHINERY-ERROR: " + m)
        return 2
    if n_viol:
        for (c, rp, e) in viol_lines:
            print("VIOLATION property=%s replay=%s clause=%s" % (pid, rp, c))
        print("%d violating clause instances in total; clause counts: %s" % (n_viol, clause_counts))
        return 1
    if clause_counts:
        print("0 violating clause instances beyond the known findings; clause counts: %s" % clause_counts)
    return 0


def _write_replay(pid, tier, seed, shard, line, clause, ev):
    d = os.path.join(REPLAYS, pid)
    os.makedirs(d, exist_ok=True)
    name = "%s_%s_%d_%s.json" % (shard, clause, line, _stable_hash(ev))
    path = os.path.join(d, name)
    with open(path, "w") as f:
        json.dump(dict(property=pid, tier=tier, seed=seed, shard=shard, line=line,
                       clause=clause, event=ev), f, indent=1, sort_keys=True)
        f.write("\n")
    return path


def _replay(pid, P, path):
    rp = json.load(open(path))
    shard = None
    for s in P.get("shards", []):
        if s.name == rp["shard"]:
            shard = s
    if shard is None:
        print("MACHINERY-ERROR: shard %s not in plan" % rp["shard"])
        return 2
    r = _run_shard(pid, shard, limit=rp["line"], tag="_replay")
    if r["error"]:
        print("MACHINERY-ERROR: " + r["error"])
        return 2
    hit = [c for (ln, cl) in r["verdicts"] if ln == rp["line"] for c in cl]
    ev = read_event(r["path"], rp["line"])
    print("replayed shard %s up to event %d: %s" % (rp["shard"], rp["line"], json.dumps(ev)[:600]))
    if rp["clause"] in hit:
        print("VIOLATION property=%s replay=%s clause=%s (reproduced)" % (pid, path, rp["clause"]))
        return 1
    print("not reproduced on the current tree (clauses now violated at that event: %s)" % hit)
    return 0


def main(plans):
    import argparse
    ap = argparse.ArgumentParser()
    ap.add_argument("pid")
    ap.add_argument("tier", nargs="?", default=os.environ.get("VERIF_TIER", "quick"))
    ap.add_argument("--replay")
    a = ap.parse_args()
    seed = int(os.environ.get("VERIF_SEED", "0") or 0)
    tier = a.tier
    if a.replay:
        rp = json.load(open(a.replay))
        tier, seed = rp["tier"], rp["seed"]
    if a.pid not in plans:
        print("MACHINERY-ERROR: unknown property " + a.pid)
        return 2
    return run_check(a.pid, plans[a.pid], tier, seed, replay=a.replay)
