"""Driver for C05: coordinate conversions, separation, position angle, enclosing circle."""
import math
import random
from core import fx


def U(lon, lat):
    """unit vector of a direction given by two angles in degrees (witness; the spec checks the norm)"""
    lo, la = math.radians(lon), math.radians(lat)
    return [math.cos(la) * math.cos(lo), math.cos(la) * math.sin(lo), math.sin(la)]


def F3(v):
    return [fx(x) for x in v]


def directions(rng, n):
    out = [(0.0, 0.0), (0.0, 90.0), (0.0, -90.0), (359.9999999, 0.0), (180.0, 0.0), (90.0, 0.0), (270.0, 45.0),
           (123.0, 89.999), (10.0, -89.999), (0.0, 89.9999999), (45.0, 1e-9)]
    # directions whose image has longitude 0 in one of the target frames (the seam of the OUTPUT longitude): the galactic
    # prime meridian (through the library's own inverse), the vernal direction, the meridian / north point
    try:
        from pymeeus.Angle import Angle
        from pymeeus.Coordinates import galactic2equatorial
        for b in (-60.0, -30.0, 0.0, 30.0, 60.0):
            ra, de = galactic2equatorial(Angle(0.0), Angle(b))
            out.append((float(ra), float(de)))
    except Exception:
        pass
    while len(out) < n:
        r = rng.random()
        if r < 0.6:
            z = rng.uniform(-1, 1)
            out.append((rng.uniform(0, 360), math.degrees(math.asin(z))))
        elif r < 0.75:
            out.append((rng.uniform(0, 360), rng.choice([1, -1]) * (90.0 - 10 ** rng.uniform(-9.3, 0.7))))
        elif r < 0.9:
            out.append((rng.choice([0.0, 360.0 - 1e-9, 1e-9, 180.0, 90.0]) + rng.uniform(-1e-6, 1e-6) % 360.0, rng.uniform(-80, 80)))
        else:
            out.append((rng.uniform(0, 360), rng.choice([0.0, 1e-12, -1e-12])))
    return out[:n]


def gen_conv(seed, shard, n):
    from pymeeus.Angle import Angle
    from pymeeus import Coordinates as C
    rng = random.Random("conv/%s/%s" % (seed, shard))
    A = Angle
    # images of the equatorial axes under equatorial2galactic (the rotation the library implements)
    G = []
    for (ra, dec) in ((0.0, 0.0), (90.0, 0.0), (0.0, 90.0)):
        lo, la = C.equatorial2galactic(A(ra), A(dec))
        G.append(F3(U(float(lo), float(la))))
    plo, pla = C.equatorial2galactic(A(192.25), A(27.4))
    pole = F3(U(float(plo), float(pla)))
    def A2(v):
        # a zero argument is an Angle that held something else, was read, and was then reset with the argument-less set()
        if v == 0.0:
            z = Angle(123.25)
            z.rad(), z.dms_tuple()
            z.set()
            return z
        return Angle(v)
    for (lon, lat) in directions(rng, n):
        for ev in _conv_one(C, A2, rng, lon, lat, G, pole):
            yield ev


def gen_poles(seed, shard, n, step):
    """both poles of every frame, exactly, for a fine grid of obliquities / observer latitudes (whether the sine handed to
    asin() rounds to 1 + 1 ulp depends on the parameter: about one value in 300 does)"""
    from pymeeus.Angle import Angle
    from pymeeus import Coordinates as C
    rng = random.Random("poles/%s/%s" % (seed, shard))
    A = Angle
    G = []
    for (ra, dec) in ((0.0, 0.0), (90.0, 0.0), (0.0, 90.0)):
        lo, la = C.equatorial2galactic(A(ra), A(dec))
        G.append(F3(U(float(lo), float(la))))
    plo, pla = C.equatorial2galactic(A(192.25), A(27.4))
    pole = F3(U(float(plo), float(pla)))
    off = rng.random() * step
    for k in range(n):
        val = off + step * (shard * n + k)
        for lat in (90.0, -90.0):
            lon = rng.choice([0.0, 90.0, 123.456, 270.0])

            class _R(object):
                # the obliquity is the grid value (kept inside 0..30), the observer's latitude follows it over -90..90
                def choice(self, seq):
                    return (val % 30.0) if len(seq) == 5 and seq[0] == 0.0 and seq[1] != 90.0 else ((val * 6.0) % 180.0 - 90.0)

                def uniform(self, a, b):
                    return a

                def random(self):
                    return 0.9 * (k % 2)          # every other grid value: the run's long-lived frame argument
            for ev in _conv_one(C, A, _R(), lon, lat, G, pole):
                if ev.get("k") in ("ecl", "hor", "raise"):
                    yield ev


_LONG = {}


def _long_lived(role, v):
    """ONE Angle object per role (obliquity, observer latitude) for the whole run: it has been an argument of earlier
    conversions with another value and is re-set in place to the value wanted now - what a caller does who keeps `eps`
    around.  The conversions must read the value it holds NOW."""
    from pymeeus.Angle import Angle
    z = _LONG.get(role)
    if z is None:
        z = _LONG[role] = Angle(v)
    z.set(v)
    return z


def _conv_one(C, A, rng, lon, lat, G, pole):
    """the three conversion families for one direction; a conversion that raises is logged, not propagated"""
    it = _conv_events(C, A, rng, lon, lat, G, pole)
    while True:
        try:
            ev = next(it)
        except StopIteration:
            return
        except Exception as ex:
            import traceback
            fn = traceback.extract_tb(ex.__traceback__)[-1].name
            yield {"k": "raise", "site": fn, "in": [lon, lat], "maxlat": abs(lat), "exc": type(ex).__name__}
            return
        yield ev


def _conv_events(C, A, rng, lon, lat, G, pole):
    if True:
        reuse = rng.random() < 0.5       # half of the directions: the frame argument is the run's long-lived object
        AE = (lambda v: _long_lived("eps", v)) if reuse else A
        AP = (lambda v: _long_lived("phi", v)) if reuse else A
        polar = max(abs(lat), 0.0)
        # --- ecliptical
        eps = rng.choice([0.0, 23.4392911, 30.0, rng.uniform(0, 30), 23.4392911 + rng.uniform(-1e-6, 1e-6)])
        lo, la = C.equatorial2ecliptical(A(lon), A(lat), AE(eps))
        rb, db = C.ecliptical2equatorial(lo, la, AE(eps))
        qa, qd = C.ecliptical2equatorial(A(lon), A(lat), AE(eps))
        pl, pb = C.equatorial2ecliptical(qa, qd, AE(eps))
        yield {"k": "ecl", "in": [lon, lat, eps], "maxlat": max(polar, abs(float(la)), abs(float(qd))),
               "u": F3(U(lon, lat)), "ce": fx(math.cos(math.radians(eps))), "se": fx(math.sin(math.radians(eps))),
               "v": F3(U(float(lo), float(la))), "w": F3(U(float(rb), float(db))), "lon": fx(float(lo)), "lat": fx(float(la)),
               "p": F3(U(lon, lat)), "q": F3(U(float(qa), float(qd))), "p2": F3(U(float(pl), float(pb))),
               "lonq": fx(float(qa)), "latq": fx(float(qd))}
        # --- horizontal
        phi = rng.choice([0.0, 90.0, -90.0, 45.0, rng.uniform(-90, 90)])
        az, el = C.equatorial2horizontal(A(lon), A(lat), AP(phi))
        hb, db = C.horizontal2equatorial(az, el, AP(phi))
        h2, d2 = C.horizontal2equatorial(A(lon), A(lat), AP(phi))
        a2, e2 = C.equatorial2horizontal(h2, d2, AP(phi))
        yield {"k": "hor", "in": [lon, lat, phi], "maxlat": max(polar, abs(float(el)), abs(float(d2))),
               "u": F3(U(lon, lat)), "sphi": fx(math.sin(math.radians(phi))), "cphi": fx(math.cos(math.radians(phi))),
               "v": F3(U(float(az), float(el))), "w": F3(U(float(hb), float(db))), "lat": fx(float(el)),
               "p": F3(U(lon, lat)), "q": F3(U(float(h2), float(d2))), "p2": F3(U(float(a2), float(e2))), "latq": fx(float(d2))}
        # --- galactic
        gl, gb = C.equatorial2galactic(A(lon), A(lat))
        rb, db = C.galactic2equatorial(gl, gb)
        qa, qd = C.galactic2equatorial(A(lon), A(lat))
        yield {"k": "gal", "q": F3(U(float(qa), float(qd))), "latqf": abs(float(qd)),
               "in": [lon, lat], "maxlat": max(polar, abs(float(gb)), abs(float(qd))), "G": G, "pole": pole,
               "u": F3(U(lon, lat)), "v": F3(U(float(gl), float(gb))), "w": F3(U(float(rb), float(db))),
               "lon": fx(float(gl)), "lat": fx(float(gb)), "lonq": fx(float(qa)), "latq": fx(float(qd))}


def gen_sep(seed, shard, n):
    from pymeeus.Angle import Angle
    from pymeeus import Coordinates as C
    rng = random.Random("sep/%s/%s" % (seed, shard))
    A = Angle
    for _ in range(n):
        (a1, d1) = directions(rng, 12)[11] if rng.random() < 0.5 else (rng.uniform(0, 360), rng.uniform(-89, 89))
        kind = rng.random()
        if kind < 0.3:      # nearly coincident
            s = 10 ** rng.uniform(-7, -2)
            th = rng.uniform(0, 2 * math.pi)
            a2, d2 = a1 + s * math.cos(th) / max(0.02, math.cos(math.radians(d1))), d1 + s * math.sin(th)
        elif kind < 0.38:   # nearly on one hour circle, a fraction of a degree to a few degrees apart
            a2, d2 = a1 + rng.choice([0.0, 5e-11, -5e-11, 9e-11, 3e-10, -2e-9]), d1 + rng.choice([1, -1]) * rng.uniform(0.06, 5.0)
        elif kind < 0.45:   # nearly antipodal
            a2, d2 = a1 + 180.0 + rng.uniform(-1e-3, 1e-3), -d1 + rng.uniform(-1e-3, 1e-3)
        else:
            a2, d2 = rng.uniform(0, 360), rng.uniform(-89, 89)
        d2 = max(-90.0, min(90.0, d2))
        u1, u2 = U(a1, d1), U(a2, d2)
        dot = sum(x * y for x, y in zip(u1, u2))
        true = math.degrees(math.atan2(math.sqrt(max(0.0, 1 - dot * dot)), dot))
        if not (1e-7 <= true <= 179.999):
            continue
        d = float(C.angular_separation(A(a1), A(d1), A(a2), A(d2)))
        d21 = float(C.angular_separation(A(a2), A(d2), A(a1), A(d1)))
        sq = math.sqrt(max(0.0, 1.0 - dot * dot))
        yield {"k": "sep", "in": [a1, d1, a2, d2], "true": true, "u1": F3(u1), "u2": F3(u2), "d": fx(d), "d21": fx(d21),
               "sh": fx(math.sin(math.radians(d / 2.0))), "ch": fx(math.cos(math.radians(d / 2.0))), "df": d}
        if not (5e-2 <= true <= 179.999):
            continue       # below 0.05 degree the inputs' own float resolution exceeds 1e-9 degree of position angle
        P = float(C.relative_position_angle(A(a1), A(d1), A(a2), A(d2)))
        ra2, de2 = math.radians(a2), math.radians(d2)
        e2 = [-math.sin(ra2), math.cos(ra2), 0.0]
        n2 = [-math.sin(de2) * math.cos(ra2), -math.sin(de2) * math.sin(ra2), math.cos(de2)]
        yield {"k": "pa", "in": [a1, d1, a2, d2], "true": true, "u1": F3(u1), "e2": F3(e2), "n2": F3(n2), "P": fx(P),
               "cP": fx(math.cos(math.radians(P))), "sP": fx(math.sin(math.radians(P))), "sq": fx(sq), "Pf": P}
        # three nearby bodies
        b = [(a1, d1)]
        for _j in range(2):
            b.append((a1 + rng.uniform(-2, 2) / max(0.05, math.cos(math.radians(d1))), max(-89.9, min(89.9, d1 + rng.uniform(-2, 2)))))
        if rng.random() < 0.25:
            # a thin triangle: two bodies very close together and the third nearly equidistant from both
            eps_ = 10 ** rng.uniform(-6, -2)
            off = rng.uniform(0.05, 2.0)
            b = [(a1, d1 + eps_), (a1, d1 - eps_), (a1 + off / max(0.05, math.cos(math.radians(d1))), d1 + rng.uniform(-0.3, 0.3) * eps_)]
            b = [(x, max(-89.9, min(89.9, y))) for (x, y) in b]
        order = list(range(3))
        rng.shuffle(order)
        pts = [b[i] for i in order]
        args = []
        for (x, y) in pts:
            args += [A(x), A(y)]
        D = float(C.circle_diameter(*args))
        seps = [float(C.angular_separation(A(pts[i][0]), A(pts[i][1]), A(pts[j][0]), A(pts[j][1]))) for i, j in ((0, 1), (0, 2), (1, 2))]
        yield {"k": "circ", "in": [list(p) for p in pts], "true": max(seps), "D": fx(D), "m": fx(max(seps)), "Df": D}
