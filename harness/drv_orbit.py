"""Driver for C07: VSOP87 heliocentric positions of the eight planets."""
import math
import random
from core import fx

BAD = fx(-99999)
PLANETS = ["Mercury", "Venus", "Earth", "Mars", "Jupiter", "Saturn", "Uranus", "Neptune"]
PERIOD = {"Mercury": 87.97, "Venus": 224.7, "Earth": 365.26, "Mars": 686.98, "Jupiter": 4332.6, "Saturn": 10759.2,
          "Uranus": 30688.5, "Neptune": 60182.0}
J_M2000, J_4000 = 990557.5, 3182029.5


def _mod(pl):
    return __import__("pymeeus." + pl, fromlist=[pl])


def _cls(pl):
    return getattr(_mod(pl), pl)


_SHARED = {"n": 0, "e": None}


def _pos(pl, jde, **kw):
    from pymeeus.Epoch import Epoch
    # every third position is asked with the process's ONE long-lived Epoch, set() to the instant wanted now after it has
    # served other instants (and other planets): nothing an earlier call left in it may be read back
    _SHARED["n"] += 1
    if _SHARED["n"] % 3 == 0:
        if _SHARED["e"] is None:
            _SHARED["e"] = Epoch(2451545.0)
        ep = _SHARED["e"]
        ep.set(jde)
    else:
        ep = Epoch(jde)
    L, B, R = _cls(pl).geometric_heliocentric_position(ep, **kw)
    return float(L), float(B), float(R)


ORB_DAYS = {"Mercury": 88.0, "Venus": 224.7, "Earth": 365.3, "Mars": 687.0, "Jupiter": 4333.0, "Saturn": 10759.0, "Uranus": 30689.0,
            "Neptune": 60182.0}


def gen_track(pl, seed, nsparse, runs, runlen, nsec):
    """positions of one planet in increasing time: sparse samples over -2000..4000, `runs` runs of
    `runlen` daily steps, and nsec groups of five 1-second steps"""
    rng = random.Random("track/%s/%s" % (seed, pl))
    ts = [J_M2000 + 1 + (J_4000 - J_M2000 - 2) * (i + rng.random()) / nsparse for i in range(nsparse)]
    for _ in range(runs):
        a = rng.uniform(J_M2000 + 1, J_4000 - runlen - 1)
        ts += [a + float(i) for i in range(runlen)]
    for _ in range(nsec):
        a = rng.uniform(J_M2000 + 1, J_4000 - 1)
        ts += [a + i / 86400.0 for i in range(5)]
    # the instants at which the planet crosses longitude 0 / 360 (found by bisection on the uncorrected longitude) and a
    # few seconds around them: the seam of the output range
    for _ in range(max(1, nsec // 2)):
        a = rng.uniform(J_M2000 + 1, J_4000 - 2 * ORB_DAYS.get(pl, 400.0) - 1)
        step = ORB_DAYS.get(pl, 400.0) / 40.0
        t0, prev = a, _pos(pl, a, tofk5=False)[0]
        for _k in range(60):
            t1 = t0 + step
            cur = _pos(pl, t1, tofk5=False)[0]
            if cur < prev - 180.0:
                lo_, hi_ = t0, t1
                for _b in range(50):
                    mid = 0.5 * (lo_ + hi_)
                    if _pos(pl, mid, tofk5=False)[0] > 180.0:
                        lo_ = mid
                    else:
                        hi_ = mid
                ts += [hi_ + d for d in (-2e-5, -5e-6, 0.0, 2e-6, 5e-6, 1e-5, 2e-5, 1e-4)]
                break
            t0, prev = t1, cur
    # the last passage through longitude 0 before J2000 and the days before it (the series' own longitude, a polynomial in
    # the time from J2000 plus periodic terms, is slightly NEGATIVE there before it is reduced)
    step = ORB_DAYS.get(pl, 400.0) / 40.0
    t1, cur = 2451545.0, _pos(pl, 2451545.0, tofk5=False)[0]
    for _k in range(45):
        t0 = t1 - step
        prev = _pos(pl, t0, tofk5=False)[0]
        if cur < prev - 180.0:
            ts += [t0 + step * f for f in (0.0, 0.2, 0.4, 0.6, 0.8, 0.9, 0.97, 1.0)] + [t0 - step * f for f in (0.25, 0.5, 1.0)]
            break
        t1, cur = t0, prev
    # the FK5 correction is a matter of the caller's choice: odd-numbered tracks are taken without it
    fk5 = (seed % 2 == 0)
    for t in sorted(ts):
        try:
            from pymeeus.Epoch import Epoch
            L, B, R = _pos(pl, t, tofk5=fk5)
            _cls(pl).orbital_elements_j2000(Epoch(t))        # the other element set asked for first: it must not colour this one
            ll, a, ecc, inc, node, arg = _cls(pl).orbital_elements_mean_equinox(Epoch(t))
            yield {"k": "p", "pl": pl, "tf": t, "t": fx(t), "L": fx(L), "B": fx(B), "R": fx(R), "Lf": L,
                   "a": fx(a), "ecc": fx(ecc), "inc": fx(abs(float(inc)))}
        except Exception as ex:
            yield {"k": "p", "pl": pl, "tf": t, "t": fx(t), "L": BAD, "B": BAD, "R": BAD, "exc": type(ex).__name__,
                   "a": BAD, "ecc": BAD, "inc": BAD}


def _unit(lon, lat):
    lo, la = math.radians(lon), math.radians(lat)
    return [math.cos(la) * math.cos(lo), math.cos(la) * math.sin(lo), math.sin(la)]


def gen_kepler(pl, seed, n):
    """two-body position from the library's own mean elements of date and kepler_equation"""
    from pymeeus.Epoch import Epoch
    from pymeeus.Coordinates import kepler_equation
    rng = random.Random("kep/%s/%s" % (seed, pl))
    for _ in range(n):
        t = rng.uniform(J_M2000 + 1, J_4000 - 1)
        e = Epoch(t)
        L, B, R = _cls(pl).geometric_heliocentric_position(Epoch(t), tofk5=False)
        ll, a, ecc, inc, node, arg = _cls(pl).orbital_elements_mean_equinox(Epoch(t))
        M = float(ll) - float(node) - float(arg)
        from pymeeus.Angle import Angle
        ea, v = kepler_equation(ecc, Angle(float(M) % 360.0))
        v = float(v)
        rk = a * (1.0 - ecc * math.cos(math.radians(float(ea))))
        u = math.radians(v + float(arg))
        i, om = math.radians(float(inc)), math.radians(float(node))
        x = rk * (math.cos(om) * math.cos(u) - math.sin(om) * math.sin(u) * math.cos(i))
        y = rk * (math.sin(om) * math.cos(u) + math.cos(om) * math.sin(u) * math.cos(i))
        z = rk * math.sin(u) * math.sin(i)
        uk = [x / rk, y / rk, z / rk]
        yield {"k": "kep", "pl": pl, "tf": t, "uv": [fx(c) for c in _unit(float(L), float(B))], "uk": [fx(c) for c in uk],
               "R": fx(float(R)), "rk": fx(rk)}


def gen_sum(pl, seed, n):
    """vsop_pos against a direct term-by-term summation of the same tables (harness oracle)"""
    from pymeeus.Epoch import Epoch
    from pymeeus.Coordinates import vsop_pos
    m = _mod(pl)
    rng = random.Random("sum/%s/%s" % (seed, pl))
    for _ in range(n):
        t = rng.uniform(J_M2000 + 1, J_4000 - 1)
        lon, lat, r = vsop_pos(Epoch(t), m.VSOP87_L, m.VSOP87_B, m.VSOP87_R)
        tau = (t - 2451545.0) / 365250.0

        def direct(tab):
            return math.fsum(math.fsum(A * math.cos(Bc + C * tau) for (A, Bc, C) in series) * tau ** i
                             for i, series in enumerate(tab)) / 1e8
        Ld, Bd, Rd = direct(m.VSOP87_L), direct(m.VSOP87_B), direct(m.VSOP87_R)
        # undo the reduction of the returned angles: nearest representative to the direct sum
        Lr = math.radians(float(lon))
        Lr += 2 * math.pi * round((Ld - Lr) / (2 * math.pi))
        Br = math.radians(float(lat))
        yield {"k": "sum", "pl": pl, "tf": t, "L": fx(Lr), "B": fx(Br), "R": fx(float(r)), "Ld": fx(Ld), "Bd": fx(Bd), "Rd": fx(Rd)}


def _near(x, ref):
    return x + 360.0 * round((ref - x) / 360.0)


def gen_cor(pl, seed, n):
    from pymeeus.Epoch import Epoch
    from pymeeus.Coordinates import nutation_longitude
    rng = random.Random("cor/%s/%s" % (seed, pl))
    c = _cls(pl)
    for _ in range(n):
        t = rng.uniform(J_M2000 + 1, J_4000 - 1)
        L0, B0, R = c.geometric_heliocentric_position(Epoch(t), tofk5=False)
        Lf, Bf, R1 = c.geometric_heliocentric_position(Epoch(t), tofk5=True)
        if pl == "Earth":
            La0 = c.apparent_heliocentric_position(Epoch(t), nutation=False)[0]
            La1 = c.apparent_heliocentric_position(Epoch(t), nutation=True)[0]
        else:
            La1 = c.apparent_heliocentric_position(Epoch(t))[0]
            from pymeeus.Coordinates import apparent_vsop_pos
            m = _mod(pl)
            La0 = apparent_vsop_pos(Epoch(t), m.VSOP87_L, m.VSOP87_B, m.VSOP87_R, nutation=False)[0]
        dpsi = float(nutation_longitude(Epoch(t)))
        L0f = float(L0)
        # witnesses for the documented FK5 conversion (Meeus 32.3): L' = L - 1.397 T - 0.00031 T^2
        T = (t - 2451545.0) / 36525.0
        Lp = L0f - 1.397 * T - 0.00031 * T * T
        yield {"k": "cor", "T": fx(T), "Lp": fx(Lp), "cLp": fx(math.cos(math.radians(Lp))), "sLp": fx(math.sin(math.radians(Lp))),
               "tB": fx(math.tan(math.radians(float(B0)))), "pl": pl, "tf": t, "L0": fx(L0f), "Lf": fx(_near(float(Lf), L0f)), "B0": fx(float(B0)), "Bf": fx(float(Bf)),
               "La0": fx(_near(float(La0), L0f)), "La1": fx(_near(float(La1), L0f)), "dpsi": fx(dpsi), "R": fx(float(R))}


def gen_tables():
    for pl in PLANETS:
        m = _mod(pl)
        yield {"k": "tab", "pl": pl, "tf": 0.0, "l1": fx(m.VSOP87_L[1][0][0] / 1e8), "ltab": fx(m.ORBITAL_ELEM[0][1]),
               "lsid": fx(m.ORBITAL_ELEM_J2000[0][1]), "a": fx(m.ORBITAL_ELEM[1][0])}


def gen_planet(pl, seed, nsparse, runs, runlen, nsec, nkep, nsum, ncor):
    for ev in gen_track(pl, seed, nsparse, runs, runlen, nsec):
        yield ev
    for ev in gen_kepler(pl, seed, nkep):
        yield ev
    for ev in gen_sum(pl, seed, nsum):
        yield ev
    for ev in gen_cor(pl, seed, ncor):
        yield ev
