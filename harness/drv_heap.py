"""spec -> code: TLC generates heap behaviours (MC_ObjHeap), the harness executes
them on real Angle / Epoch objects and logs the observable projection after
every step; Trace_ObjHeap validates the log against the same specification."""
import json
import operator
import os
import re
import subprocess
import core
from core import fx

_BEH = re.compile(r'^<<"BEH", (".*")>>\s*$')
J0 = 2451545.0


def tlc_behaviours(kind, depth, simulate=0, seed=0, tag=""):
    """behaviours of MC_ObjHeap as lists of operation records; cached per
    (parameters, spec mtime) under work/heapgen with a file lock so that parallel
    shards generate once (the behaviours depend on the specification only)"""
    import fcntl
    stamp = max(int(os.path.getmtime(os.path.join(core.SPEC, f))) for f in
                ("MC_ObjHeap.tla", "ObjHeap.tla", "AngleADT.tla", "Fix.tla"))
    wd = os.path.join(core.WORK, "heapgen", "%s_%d_%d_%d%s" % (kind, depth, simulate, seed, tag))
    os.makedirs(wd, exist_ok=True)
    cache = os.path.join(wd, "behaviours_%d.json" % stamp)
    with open(os.path.join(wd, "lock"), "w") as lk:
        fcntl.flock(lk, fcntl.LOCK_EX)
        if os.path.exists(cache):
            return json.load(open(cache)), None
        extra = []
        if simulate:
            extra = ["-simulate", "num=%d" % simulate, "-depth", str(depth + 1), "-seed", str(seed + 1)]
        r = core.run_tlc("MC_ObjHeap", "MC_ObjHeap_%s.cfg" % kind, wd, env={"HEAP_DEPTH": str(depth)},
                         workers=1, heap="3g", extra=extra, timeout=1500)
        behs = []
        for line in r.out.splitlines():
            m = _BEH.match(line)
            if m:
                behs.append(json.loads(json.loads(m.group(1))))
        if not behs or (not simulate and not r.ok):
            raise RuntimeError("TLC behaviour generation failed: %s" % (r.error,))
        with open(cache + ".tmp", "w") as f:
            json.dump(behs, f)
        os.rename(cache + ".tmp", cache)
        return behs, r


OPS = {"add": operator.add, "sub": operator.sub, "mul": operator.mul}
IOPS = {"add": operator.iadd, "sub": operator.isub, "mul": operator.imul}


def _num(k, i):
    v = k / 16.0
    if v == int(v) and i % 2 == 0:
        return int(v)          # exercise int and float operand types alike
    return v


def gen_heap(kind, depth, simulate, seed, part, parts):
    if kind == "angle":
        from pymeeus.Angle import Angle as Cls
        mk = lambda k: Cls(k / 16.0)
        val = lambda o: o()
        setv = lambda o, k: o.set(k / 16.0)
    else:
        from pymeeus.Epoch import Epoch as Cls
        mk = lambda k: Cls(J0 + k / 16.0)
        val = lambda o: o.jde() - J0
        setv = lambda o, k: o.set(J0 + k / 16.0)
    behs, _ = tlc_behaviours(kind, depth, simulate, seed)
    for bi, beh in enumerate(behs):
        if bi % parts != part:
            continue
        env = {"a": mk(0), "b": mk(0), "c": mk(0)}
        yield {"k": "reset", "o": {"t": "", "op": "", "dst": "", "l": "", "r": "", "k": 0},
               "val": {n: fx(0) for n in "abc"}, "sh": [], "oc": "ok", "fresh": 1}
        for si, o in enumerate(beh):
            oc = "ok"
            before = [id(v) for v in env.values()]
            try:
                t = o["t"]
                if t == "new":
                    env[o["dst"]] = mk(o["k"])
                elif t == "alias":
                    env[o["dst"]] = env[o["l"]]
                elif t == "copy":
                    env[o["dst"]] = Cls(env[o["l"]])
                elif t == "bin":
                    env[o["dst"]] = OPS[o["op"]](env[o["l"]], env[o["r"]])
                elif t == "num":
                    env[o["dst"]] = OPS[o["op"]](env[o["l"]], _num(o["k"], bi + si))
                elif t == "rnum":
                    env[o["dst"]] = OPS[o["op"]](_num(o["k"], bi + si), env[o["l"]])
                elif t == "inp":
                    x = env[o["l"]]
                    x = IOPS[o["op"]](x, env[o["r"]])
                    env[o["l"]] = x
                elif t == "inpnum":
                    x = env[o["l"]]
                    x = IOPS[o["op"]](x, _num(o["k"], bi + si))
                    env[o["l"]] = x
                elif t == "neg":
                    env[o["dst"]] = -env[o["l"]]
                elif t == "abs":
                    env[o["dst"]] = abs(env[o["l"]])
                elif t == "mut":
                    if o["op"] == "to_positive":
                        env[o["l"]].to_positive()
                    else:
                        setv(env[o["l"]], o["k"])
            except Exception as ex:
                oc = type(ex).__name__
            sh = [m + n for (m, n) in (("a", "b"), ("a", "c"), ("b", "c")) if env[m] is env[n]]
            try:
                vals = {n: fx(val(env[n])) for n in "abc"}
            except Exception:
                vals, oc = {n: fx(-99999) for n in "abc"}, "bad-object"
            tgt = o["dst"] if o["t"] in ("bin", "num", "rnum", "neg", "abs") else (o["l"] if o["t"] in ("inp", "inpnum") else "")
            fresh = 1 if (not tgt or oc != "ok" or id(env[tgt]) not in before) else 0
            yield {"k": "step", "o": o, "val": vals, "sh": sh, "oc": oc, "fresh": fresh}
