"""Input generator only: walks civil days in order.  The TLA+ chain
(spec/Calendar.tla) is the oracle; clause WALK checks this walker against it."""


def leap(y):
    if y < 1582:
        return y % 4 == 0
    return y % 4 == 0 and (y % 100 != 0 or y % 400 == 0)


def mlen(y, m):
    if m == 2:
        return 29 if leap(y) else 28
    return 30 if m in (4, 6, 9, 11) else 31


def days(y0, y1):
    """yield (y, m, d, doy) for every civil day of years y0..y1"""
    for y in range(y0, y1 + 1):
        n = 0
        for m in range(1, 13):
            for d in range(1, mlen(y, m) + 1):
                if y == 1582 and m == 10 and 5 <= d <= 14:
                    continue
                n += 1
                yield y, m, d, n


SHORT = ["Jan", "Feb", "Mar", "Apr", "May", "Jun", "Jul", "Aug", "Sep", "Oct", "Nov", "Dec"]
LONG = ["January", "February", "March", "April", "May", "June", "July", "August",
        "September", "October", "November", "December"]
