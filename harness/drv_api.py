"""Driver for C20: every public callable, well-typed and ill-typed calls, frame digests, call histories."""
import hashlib
import inspect
import math
import random
import api_catalogue as A

BIG_EVERY = 40


def _h(s):
    return int(hashlib.sha1(s.encode("utf-8", "replace")).hexdigest()[:8], 16) & 0x3FFFFFFF


def _h2(s):
    """60-bit key as two 30-bit halves (TLC integers are 32-bit): call signatures must not collide"""
    x = hashlib.sha1(s.encode("utf-8", "replace")).hexdigest()
    return [int(x[:8], 16) & 0x3FFFFFFF, int(x[8:16], 16) & 0x3FFFFFFF]


def canon(o, depth=0):
    """canonical text of the observable state of an object (deep)"""
    if depth > 6:
        return "<deep>"
    if o is None or isinstance(o, (bool, int, str)):
        return repr(o)
    if isinstance(o, float):
        return repr(o)
    if isinstance(o, complex):
        return repr(o)
    if isinstance(o, (list, tuple)):
        return ("L[" if isinstance(o, list) else "T[") + ",".join(canon(x, depth + 1) for x in o) + "]"
    if isinstance(o, dict):
        return "D{" + ",".join(canon(k, depth + 1) + ":" + canon(v, depth + 1) for k, v in sorted(o.items(), key=lambda kv: repr(kv[0]))) + "}"
    if inspect.isfunction(o) or inspect.isbuiltin(o) or inspect.ismethod(o):
        return "<fn %s>" % getattr(o, "__name__", "?")
    # library value objects are observed through their PUBLIC views: what "the object was changed" means for a caller.
    # (A structural rendering of the private fields would also flag a correct per-instance memo, which changes nothing a
    # caller can see; a memo that does leak shows in the views, in DETERMINISTIC and in the re-targeting scenarios.)
    cn = type(o).__name__
    try:
        if cn == "Angle":
            return "Angle{%r,%r}" % (o(), o.get_tolerance())
        if cn == "Epoch":
            return "Epoch{%r}" % (o.jde(),)
        if cn == "Interpolation":
            return "Interpolation{%s,%r}" % (repr(o), o.get_tolerance())
        if cn == "CurveFitting":
            return "CurveFitting{%s}" % (repr(o),)
        if cn in ("Ellipsoid", "Earth"):
            return "%s{%s}" % (cn, str(o))
    except Exception as ex:
        return "%s{unobservable:%s}" % (cn, type(ex).__name__)
    if hasattr(o, "__dict__"):
        return type(o).__name__ + "{" + ",".join(k + "=" + canon(v, depth + 1) for k, v in sorted(vars(o).items())) + "}"
    return "<%s>" % type(o).__name__


def digest(o):
    return _h(canon(o))


def finite(o, depth=0):
    if depth > 6:
        return True
    if isinstance(o, bool) or o is None or isinstance(o, (int, str)):
        return o is not None
    if isinstance(o, float):
        return math.isfinite(o)
    if isinstance(o, (list, tuple)):
        return all(finite(x, depth + 1) for x in o)
    if isinstance(o, dict):
        return all(finite(v, depth + 1) for v in o.values())
    if hasattr(o, "__dict__"):
        return all(finite(v, depth + 1) for k, v in vars(o).items())
    return True


def shape(o, depth=0):
    if isinstance(o, (list, tuple)) and depth < 2:
        if len(o) > 8:
            return type(o).__name__ + "[n]"
        return type(o).__name__ + "(" + ",".join(shape(x, depth + 1) for x in o) + ")"
    if isinstance(o, bool):
        return "bool"
    if isinstance(o, (int, float)):
        return "num"
    return type(o).__name__


# ---------------------------------------------------------------------------
# module-level state
# ---------------------------------------------------------------------------
def _globals_parts():
    small, big = [], []
    for m in A.MODS:
        mod = A._mod(m)
        for name, obj in sorted(vars(mod).items()):
            if name.startswith("__") or inspect.ismodule(obj) or inspect.isfunction(obj):
                continue
            if inspect.isclass(obj):
                if obj.__module__ != mod.__name__:
                    continue
                for an, av in sorted(vars(obj).items()):
                    if an.startswith("__") or callable(av) or isinstance(av, (staticmethod, classmethod, property)):
                        continue
                    small.append((m + "." + name + "." + an, av))
                continue
            if name.isupper() or name.startswith("_"):
                (big if name.startswith("VSOP") or name.startswith("PERIODIC") or name.startswith("NUTATION") else small).append((m + "." + name, obj))
    return small, big


class Globals(object):
    def __init__(self):
        self.n = 0
        self.bigd = None

    def digest(self, force_big=False):
        small, big = _globals_parts()
        sd = _h(";".join(k + "=" + canon(v) for k, v in small))
        if self.bigd is None or force_big or self.n % BIG_EVERY == 0:
            self.bigd = _h(";".join(k + "=" + canon(v) for k, v in big))
        self.n += 1
        return (sd ^ self.bigd) & 0x3FFFFFFF


# ---------------------------------------------------------------------------
# instances and special argument builders
# ---------------------------------------------------------------------------
def make_instance(cls, g):
    rng = g.rng
    from pymeeus.Angle import Angle
    from pymeeus.Epoch import Epoch
    if cls == "Angle":
        return Angle(rng.uniform(-359, 359))
    if cls == "Epoch":
        return g.epoch()
    if cls == "Interpolation":
        from pymeeus.Interpolation import Interpolation
        return Interpolation([1.0, 2.0, 3.0, 4.0, 5.0], [-3.0 + rng.random(), -1.0, 0.5, 2.0, 1.0])
    if cls == "CurveFitting":
        from pymeeus.CurveFitting import CurveFitting
        return CurveFitting([1.0, 2.0, 3.0, 4.0, 5.5, 7.0], [1.1 + rng.random(), 1.9, 3.2, 3.9, 5.7, 7.1])
    if cls == "Earth":
        from pymeeus.Earth import Earth
        return Earth()
    if cls == "Ellipsoid":
        from pymeeus.Earth import Ellipsoid
        return Ellipsoid(6378140.0, 1.0 / 298.257, 7.292e-5)
    if cls == "Minor":
        from pymeeus.Minor import Minor
        # (angles as a caller may give them: also negative, i.e. not yet reduced to [0, 360))
        return Minor(2.2091404, 0.8502196, Angle(11.94524), Angle(rng.choice([334.75006, -25.24994, -100.5])),
                     Angle(rng.choice([186.23352, -173.76648])), Epoch(1990, 10, 28.54502))
    mod = A._mod([m for m in A.MODS if hasattr(A._mod(m), cls)][0])
    return getattr(mod, cls)()


def _angles(g, n, lo, hi):
    xs = sorted(g.rng.uniform(lo, hi) for _ in range(n))
    return [g.angle(x) for x in xs]


def special_args(qn, g):
    """curated argument builders -> (args, kwargs) or None"""
    rng = g.rng
    from pymeeus.Angle import Angle
    if qn == "CurveFitting.general_fitting":
        return ([math.sin, math.cos, (lambda x: 1.0)][: rng.choice([1, 3])], {}) if False else ((math.sin, math.cos, _one), {})
    if qn in ("Coordinates.vsop_pos", "Coordinates.geometric_vsop_pos", "Coordinates.apparent_vsop_pos"):
        m = A._mod(rng.choice(["Venus", "Earth", "Mars"]))
        return ((g.epoch(), m.VSOP87_L, m.VSOP87_B, m.VSOP87_R), {})
    if qn == "Coordinates.orbital_elements":
        m = A._mod("Mars")
        return ((g.epoch(), m.ORBITAL_ELEM, m.ORBITAL_ELEM), {})
    if qn == "Coordinates.minimum_angular_separation":
        a = [10.0, 10.5, 11.0]
        d = [5.0, 5.2, 5.4]
        return (tuple(Angle(v) for v in (a[0], d[0], a[1], d[1], a[2], d[2], 10.6, 5.5, 10.5, 5.1, 10.4, 4.7)), {})
    # tabular arguments: "list" in the docstrings, list OR tuple accepted; odd and even lengths (an even table drops its last row)
    box = rng.choice([list, tuple])
    forced = g.force.get("_table")
    if forced:
        box = {"list": list, "tuple": tuple}[forced[1]]
    if qn == "Coordinates.planetary_conjunction":
        n = forced[0] if forced else rng.choice([3, 4, 5, 6])
        a1 = box(Angle(100.0 + 1.0 * k) for k in range(n))
        a2 = box(Angle(100.3 + 0.8 * k) for k in range(n))
        d1 = box(Angle(10.0 + 0.2 * k) for k in range(n))
        d2 = box(Angle(12.0 + 0.1 * k) for k in range(n))
        return ((a1, d1, a2, d2), {})
    if qn == "Coordinates.planet_star_conjunction":
        n = forced[0] if forced else rng.choice([3, 4, 5, 6])
        a1 = box(Angle(100.0 + 1.0 * k) for k in range(n))
        d1 = box(Angle(10.0 + 0.2 * k) for k in range(n))
        return ((a1, d1, Angle(101.3), Angle(11.0)), {})
    if qn == "Coordinates.planet_stars_in_line":
        n = forced[0] if forced else rng.choice([3, 4, 5, 6])
        c = ((n if n % 2 else n - 1) - 1) / 2.0 + 0.3          # the planet crosses the stars' line 0.3 steps after mid-table
        a1 = box(Angle(101.2 + 1.0 * (k - c)) for k in range(n))
        d1 = box(Angle(12.09 + 1.2 * (k - c)) for k in range(n))
        return ((a1, d1, Angle(101.0), Angle(12.0), Angle(103.0), Angle(12.9)), {})
    if qn == "Earth.set":
        from pymeeus.Earth import IAU76
        return ((IAU76,), {})
    if qn == "JupiterMoons.correct_rectangular_positions":
        return ((5.2, 1, 4.5, (2.0, 0.5, 1.0)), {})
    if qn in ("Coordinates.phase_angle", "Coordinates.illuminated_fraction"):
        r, big = rng.uniform(0.5, 5.0), rng.uniform(0.983, 1.017)
        d = rng.uniform(abs(r - big) + 0.01, r + big - 0.01)
        return ((r, d, big), {})
    if qn == "Coordinates.velocity":
        a = rng.uniform(0.4, 40.0)
        return ((rng.uniform(0.6 * a, 1.4 * a), a), {})
    return None


def _one(x):
    return 1.0


CTOR_ARGS = {
    "Angle": lambda g: ((g.rng.uniform(-400, 400),), {}),
    "Epoch": lambda g: ((g.rng.randint(1900, 2100), g.rng.randint(1, 12), g.rng.randint(1, 28) + 0.25), {}),
    "Interpolation": lambda g: (([1.0, 2.0, 3.0, 4.0], [2.0, -1.0, 0.5, 3.0]), {}),
    "CurveFitting": lambda g: (([1.0, 2.0, 3.0, 4.0], [2.0, 3.1, 3.9, 5.2]), {}),
    "Earth": lambda g: ((), {}),
    "Ellipsoid": lambda g: ((6378137.0, 1.0 / 298.257223563, 7.292e-5), {}),
    "Minor": lambda g: ((2.2, 0.85, g.angle(11.9), g.angle(334.7), g.angle(186.2), g.epoch()), {}),
}
SET_ARGS = {
    "Angle.set": lambda g: ((g.rng.uniform(-400, 400),), {}), "Angle.set_radians": lambda g: ((g.rng.uniform(-7, 7),), {}),
    "Angle.set_ra": lambda g: ((g.rng.uniform(0, 24),), {}), "Angle.set_tolerance": lambda g: ((1e-9,), {}),
    "Epoch.set": CTOR_ARGS["Epoch"], "Interpolation.set": CTOR_ARGS["Interpolation"], "Interpolation.set_tolerance": lambda g: ((1e-9,), {}),
    "CurveFitting.set": CTOR_ARGS["CurveFitting"], "Minor.set": CTOR_ARGS["Minor"],
}


def build_call(entry, g):
    """-> (callable, args, kwargs, selfobj or None) with well-typed in-domain arguments, or None"""
    qn, m, cls, attr, kind = entry
    mod = A._mod(m)
    owner = getattr(mod, cls) if cls else mod
    selfobj = None
    if kind == "method":
        if attr == "__init__":
            a, kw = CTOR_ARGS.get(cls, lambda gg: ((), {}))(g)
            return (owner, a, kw, None)
        selfobj = make_instance(cls, g)
        fn = getattr(selfobj, attr)
    else:
        fn = getattr(owner, attr)
    if qn in SET_ARGS:
        a, kw = SET_ARGS[qn](g)
        return (fn, a, kw, selfobj)
    sp = special_args(qn, g)
    if sp is not None:
        return (fn, sp[0], sp[1], selfobj)
    try:
        sig = inspect.signature(fn)
    except (TypeError, ValueError):
        return None
    dt = A.doc_types(fn)
    args = []
    for p in sig.parameters.values():
        if p.name == "self" or p.kind in (p.VAR_POSITIONAL, p.VAR_KEYWORD):
            continue
        v = g.value(qn, p.name, dt.get(p.name), p.default)
        if v is None and p.default is inspect.Parameter.empty:
            return None
        if v is None:
            break
        args.append(v)
    # *args style date arguments (mean_obliquity, Epoch.check_input_date, ...)
    if any(p.kind == p.VAR_POSITIONAL for p in sig.parameters.values()) and not args:
        if cls in ("Angle",):
            args = [g.rng.uniform(-400, 400)]
        else:
            args = [g.epoch()]
    return (fn, tuple(args), {}, selfobj)


ILL = [None, "text", complex(1.0, 2.0), [1.5]]


def ill_variants(args, rng):
    """ill-typed argument tuples derived from a well-typed one"""
    out = []
    for i in range(len(args)):
        bad = rng.choice(ILL)
        if isinstance(args[i], (list, tuple)) and isinstance(bad, list):
            bad = "text"
        out.append(("arg%d:%s" % (i, type(bad).__name__), args[:i] + (bad,) + args[i + 1:]))
    out.append(("extra", args + (None, None, None, None, None, None, None, None, None, None, None, None, None)))
    if args:
        out.append(("missing", ()))
    return out


def _oc(ex):
    n = type(ex).__name__
    return n if n in ("TypeError", "ValueError", "ZeroDivisionError") else "other:" + n


def call_event(entry, fn, args, kwargs, selfobj, G, cls_tag, variant=""):
    return observe_call(entry, fn, args, kwargs, selfobj, G, cls_tag, variant)[0]


def _is_mutable_obj(a):
    from pymeeus.Angle import Angle
    from pymeeus.Epoch import Epoch
    from pymeeus.Interpolation import Interpolation
    from pymeeus.CurveFitting import CurveFitting
    return isinstance(a, (Angle, Epoch, Interpolation, CurveFitting, list))


def observe_call(entry, fn, args, kwargs, selfobj, G, cls_tag, variant=""):
    """perform the call and describe it -> (event, result, exception)"""
    qn = entry[0]
    exc = res = None
    watched = list(args) + [kwargs[k] for k in sorted(kwargs)] + ([selfobj] if selfobj is not None else [])
    pre = [digest(a) for a in watched]
    selfcanon = canon(selfobj) if selfobj is not None else ""
    argcanon = ";".join(canon(a) for a in args) + "".join(";%s=%s" % (k, canon(kwargs[k])) for k in sorted(kwargs))
    gpre = G.digest()
    try:
        res = fn(*args, **kwargs)
        oc, rd, fin, shp = "ok", digest(res), 1 if (finite(res) or (res is None and qn in A.MUTATORS) or A.NONE_OK.get(qn) == shape(res)) else 0, shape(res)
        # a result (or a component of a returned tuple / list) that IS one of the caller's mutable argument objects shares
        # state with it: re-targeting the argument later changes the "result" (the receiver of a method is not an argument)
        parts = list(res) if isinstance(res, (list, tuple)) else [res]
        margs = [a for a in list(args) + list(kwargs.values()) if _is_mutable_obj(a)]
        alias = 1 if any(any(p is a for a in margs) for p in parts + [res]) else 0
    except Exception as ex:
        exc = ex
        alias = 0
        oc, rd, fin, shp = _oc(ex), 0, 1, "raise"
    post = [digest(a) for a in watched]
    gpost = G.digest()
    mut = 1 if qn in A.MUTATORS else 0
    if mut and selfobj is not None:
        pre[-1] = post[-1] = 0        # a documented mutator may change self (only self)
    key = _h2(qn + "|" + argcanon + "|" + selfcanon)
    return ({"k": "call", "f": qn, "site": qn, "cls": cls_tag, "variant": variant, "pre": pre, "post": post, "gpre": gpre, "gpost": gpost,
            "res": rd, "fin": fin, "shape": shp, "oc": oc, "key": key, "mut": mut, "clock": 1 if qn in A.CLOCK else 0,
            "nargs": len(args), "alias": alias}, res, exc)


TABULAR = ("Coordinates.planetary_conjunction", "Coordinates.planet_star_conjunction", "Coordinates.planet_stars_in_line")


def edge_reps(entry):
    """("edge", parameter, value) pseudo-repetitions for the documented-domain edges of this callable"""
    qn, m, cls, attr, kind = entry
    if qn in TABULAR:
        return [("edge", "_table", (n, b)) for n in (3, 4, 5, 6) for b in ("list", "tuple")]
    if qn in SET_ARGS or attr == "__init__":
        return []
    try:
        owner = getattr(A._mod(m), cls) if cls else A._mod(m)
        sig = inspect.signature(getattr(owner, attr))
    except (TypeError, ValueError, AttributeError):
        return []
    out = []
    for p in sig.parameters.values():
        if p.name != "self":
            out += [("edge", p.name, v) for v in A.edges_for(qn, p.name)]
    return out


def gen_calls(seed, part, parts, reps, with_ill, passes=2):
    """pass 1: every callable of this part in catalogue order, `reps` well-typed argument sets each (+ ill-typed
    variants); passes 2..: the SAME calls (same seeded arguments) in a shuffled order - equal arguments must give
    equal results whatever was called in between."""
    entries = [e for i, e in enumerate(A.callables()) if i % parts == part]
    G = Globals()
    order = [(e, rep) for e in entries for rep in list(range(reps)) + edge_reps(e)]
    for pas in range(passes):
        if pas > 0:
            random.Random("shuffle/%s/%s/%s" % (seed, part, pas)).shuffle(order)
        for (entry, rep) in order:
            force = {rep[1]: rep[2]} if isinstance(rep, tuple) else None
            g = A.Gen("calls/%s/%s/%s" % (seed, entry[0], rep), force)
            bc = build_call(entry, g)
            if bc is None:
                if pas == 0 and rep == 0:
                    yield {"k": "skip", "f": entry[0], "site": entry[0]}
                continue
            fn, args, kwargs, selfobj = bc
            yield call_event(entry, fn, args, kwargs, selfobj, G, "well", "" if force is None else "edge:%s=%r" % (rep[1], rep[2]))
            if with_ill and pas == 0 and rep == 0 and entry[3] not in ("__init__", "__str__", "__repr__", "__call__", "__len__",
                                                                       "__float__", "__int__", "__hash__", "__neg__", "__abs__"):
                for (tag, bad) in ill_variants(tuple(args), g.rng):
                    bc2 = build_call(entry, A.Gen("calls/%s/%s/%s" % (seed, entry[0], rep)))
                    if bc2 is None:
                        break
                    yield call_event(entry, bc2[0], bad, {}, bc2[3], G, "ill", tag)
    if part == 0:
        for ev in copy_events(seed):
            yield ev
        for (qn, what, thunk) in A.must_reject():
            gpre = G.digest()
            try:
                res = thunk()
                oc, fin = "ok", 1 if finite(res) else 0
            except Exception as ex:
                oc, fin = _oc(ex), 1
            yield {"k": "must", "f": qn, "site": qn, "what": what, "oc": oc, "fin": fin, "gpre": gpre, "gpost": G.digest()}


# ---------------------------------------------------------------------------
# neighbour histories: "calling any function twice with equal arguments, in any order relative to other calls,
# returns equal results".  A memo or cache keyed too coarsely (on a subset of the arguments, on a rounded epoch, on the
# identity of an Epoch the caller later re-set) answers a NEIGHBOURING query with the stored result.  Every callable is
# therefore queried at a base point and at one-argument perturbations of it, in this process in the order
# base, v1, v2, ... (re-using and re-setting the SAME Angle/Epoch objects, as a caller may), and in a FRESH interpreter in
# the reverse order with fresh objects.  All events carry the key of their argument values, so the memo of ApiHeap.tla
# requires equal results for equal keys across both histories.
# ---------------------------------------------------------------------------
def _perturbations(v):
    """-> list of (tag, function(old) -> new value or None when the object is changed in place)"""
    from pymeeus.Angle import Angle
    from pymeeus.Epoch import Epoch
    if isinstance(v, bool):
        return [("not", lambda o: not o)]
    if isinstance(v, int):
        return [("+1", lambda o: o + 1)]
    if isinstance(v, float):
        return [("+1e-4", lambda o: o + 1e-4 * max(1.0, abs(o)))]
    if isinstance(v, str) and v in sum(A.STR["target"].values(), []):
        alts = [t for ts in A.STR["target"].values() if v in ts for t in ts if t != v]
        return [("alt", lambda o: alts[0])] if alts else []
    if isinstance(v, Angle):
        return [("+0.001deg", lambda o: float(o) + 0.001)]
    if isinstance(v, Epoch):
        return [("+30s", lambda o: o.jde() + 30.0 / 86400.0), ("+0.3d", lambda o: o.jde() + 0.3), ("-0.3d", lambda o: o.jde() - 0.3)]
    return []


def _apply(obj, newval, inplace):
    """an argument carrying newval: the same object re-set in place (Angle/Epoch, when inplace) or a fresh one"""
    from pymeeus.Angle import Angle
    from pymeeus.Epoch import Epoch
    if isinstance(obj, (Angle, Epoch)):
        if inplace:
            obj.set(newval)
            return obj
        return type(obj)(newval)
    return newval


def neighbour_events(seed, part, parts, reverse, G=None, tagp="nb1"):
    entries = [e for i, e in enumerate(A.callables()) if i % parts == part]
    G = G or Globals()
    skip_attr = ("__init__", "__str__", "__repr__", "__hash__", "__call__")
    for entry in entries:
        qn = entry[0]
        if qn in A.MUTATORS or entry[3] in skip_attr or qn in A.CLOCK:
            continue
        def fresh():
            return build_call(entry, A.Gen("calls/%s/%s/%s" % (seed, qn, "nb")))
        bc = fresh()
        if bc is None:
            continue
        fn, args, kwargs, selfobj = bc
        slots = [("arg%d" % i, a) for i, a in enumerate(args)] + ([("self", selfobj)] if selfobj is not None else [])
        plan = [(slot, j) for (slot, v) in slots for j in range(len(_perturbations(v)))]
        base0 = [float(a) if type(a).__name__ == "Angle" else (a.jde() if type(a).__name__ == "Epoch" else a) for (_, a) in slots]
        seq = [None] + plan if not reverse else list(reversed(plan)) + [None]
        base_args = tuple(args)
        for step in seq:
            if reverse:
                fn, base_args, kwargs, selfobj = fresh()      # fresh objects for every call of the reversed history
            args = list(base_args)
            tag = "base"
            if step is not None:
                slot, j = step
                idx = [n for (n, _) in slots].index(slot)
                cur = selfobj if slot == "self" else args[idx]
                ptag, f = _perturbations(cur)[j]
                # perturb relative to the BASE value (the object may carry an earlier perturbation)
                if type(cur).__name__ in ("Angle", "Epoch"):
                    ref = type(cur)(base0[idx])
                else:
                    ref = base0[idx]
                new = _apply(cur, f(ref), inplace=(not reverse) or slot == "self")
                if slot != "self":
                    args[idx] = new
                tag = "%s%s" % (slot, ptag)
            yield call_event(entry, fn, tuple(args), kwargs, selfobj, G, "well" if step is None else "near", "%s:%s" % (tagp, tag))
            if step is not None and not reverse:
                # undo the in-place perturbation of the other slots is not needed: each step re-sets from base0
                for (n, v), b in zip(slots, base0):
                    if type(v).__name__ in ("Angle", "Epoch"):
                        v.set(b)


def neighbour_child_main():
    """entry point of the fresh interpreter: prints the reversed history as ndjson"""
    import json, sys
    spec = json.loads(sys.stdin.read())
    for ev in neighbour_events(spec["seed"], spec["part"], spec["parts"], True, tagp="nb2"):
        sys.stdout.write(json.dumps(ev) + "\n")


def gen_neighbours(seed, part, parts):
    import json, os, subprocess, sys
    for ev in neighbour_events(seed, part, parts, False):
        yield ev
    p = subprocess.run([sys.executable, "-B", "-c", "import drv_api; drv_api.neighbour_child_main()"],
                       input=json.dumps(dict(seed=seed, part=part, parts=parts)).encode(), stdout=subprocess.PIPE,
                       stderr=subprocess.PIPE, env=os.environ, timeout=3000)
    if p.returncode != 0:
        raise RuntimeError("neighbour child failed: " + p.stderr.decode("utf-8", "replace")[-2000:])
    for line in p.stdout.decode().splitlines():
        if line.strip():
            yield json.loads(line)


def gen_testsuite(kind):
    """the repository's own tests ("tests") or the docstring examples of every module ("doctests"), executed under
    harness/pytest_tracer.py: one event per outermost public call, in execution order"""
    import json, os, subprocess, sys, tempfile
    import pymeeus
    import core
    root = os.path.dirname(os.path.dirname(os.path.abspath(pymeeus.__file__)))
    os.makedirs(core.WORK, exist_ok=True)
    fd, path = tempfile.mkstemp(prefix="testtrace_", suffix=".ndjson", dir=core.WORK)
    os.close(fd)
    try:
        cmd = [sys.executable, "-B", "-m", "pytest", "-q", "-p", "no:cacheprovider", "-p", "pytest_tracer"]
        cmd += ["tests"] if kind == "tests" else ["--doctest-modules", "pymeeus"]
        p = subprocess.run(cmd, cwd=root, env=dict(os.environ, VERIF_TEST_TRACE=path), stdout=subprocess.PIPE,
                           stderr=subprocess.STDOUT, timeout=3000)
        out = p.stdout.decode("utf-8", "replace")
        if " passed" not in out:
            raise RuntimeError("pytest did not run: " + out[-1500:])
        with open(path) as f:
            for line in f:
                if line.strip():
                    yield json.loads(line)
    finally:
        try:
            os.unlink(path)
        except OSError:
            pass


def copy_events(seed):
    """copy constructors: the copy equals the source and shares no state with it"""
    g = A.Gen("copy/%s" % seed)
    for cls in ("Angle", "Epoch", "Interpolation", "CurveFitting"):
        for rep in range(6):
            src = make_instance(cls, g)
            Cls = type(src)
            cpy = Cls(src)
            s0, c0 = digest(src), digest(cpy)
            a, kw = SET_ARGS[cls + ".set"](g)
            src.set(*a, **kw)
            if cls == "Angle":
                src.to_positive()
                src.set_tolerance(1e-7)
            if cls == "Interpolation":
                src.set_tolerance(1e-7)
            c1, s1 = digest(cpy), digest(src)
            a, kw = SET_ARGS[cls + ".set"](g)
            cpy.set(*a, **kw)
            s2 = digest(src)
            yield {"k": "copy", "f": cls + ".copy", "site": cls + ".copy", "cls": cls, "s0": s0, "c0": c0, "c1": c1, "s1": s1, "s2": s2, "rep": rep}
