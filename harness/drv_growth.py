"""Drivers for the growth suite (behaviour outside the twenty listed properties): see spec/Trace_Growth.tla."""
import math
import random
from core import fx
from drv_sphere import F3

BAD = fx(-99999)


def gen_refraction(seed, n):
    from pymeeus.Angle import Angle
    from pymeeus import Coordinates as C
    rng = random.Random("refr/%s" % seed)
    hs = [0.0, 0.5, 1.0, 5.0, 10.0, 45.0, 89.0, 89.99] + [rng.uniform(0.0, 89.98) for _ in range(n)]
    for h in hs:
        p, T = rng.choice([(1010.0, 10.0), (rng.uniform(700, 1050), rng.uniform(-30, 40))])
        step = 0.01
        t = float(C.refraction_apparent2true(Angle(h)))
        yield {"k": "refr", "hf": h, "h": fx(h), "t": fx(t), "a": fx(float(C.refraction_true2apparent(Angle(t)))),
               "tn": fx(float(C.refraction_apparent2true(Angle(h + step)))), "p": fx(p), "T": fx(T),
               "tp": fx(float(C.refraction_apparent2true(Angle(h), p, T)))}


def gen_carrington(seed, n):
    from pymeeus.Sun import Sun
    rng = random.Random("carr/%s" % seed)
    for num in [1, 2, 1699, 2000] + [rng.randrange(1, 3000) for _ in range(n)]:
        yield {"k": "carr", "n": num, "j0": fx(Sun.beginning_synodic_rotation(num).jde()),
               "j1": fx(Sun.beginning_synodic_rotation(num + 1).jde())}


def gen_views(seed, n):
    from pymeeus.Angle import Angle
    from pymeeus.Epoch import Epoch
    rng = random.Random("views/%s" % seed)
    for _ in range(n):
        x = rng.choice([rng.uniform(0, 5.4e6), float(rng.randrange(0, 5400000)), rng.randrange(0, 5400000) + 0.5])
        e = Epoch(x)
        yield {"k": "epk", "xf": x, "x": fx(e.jde()), "fl": fx(float(e)), "i": int(e), "mjd": fx(e.mjd()),
               "hq": 1 if hash(e) == hash(Epoch(e.jde())) else 0}
        v = rng.choice([rng.uniform(-359.9, 359.9), float(rng.randrange(-359, 360)), rng.randrange(-359, 359) + 0.5])
        a = Angle(v)
        nd = rng.randrange(0, 7)
        yield {"k": "angv", "vf": v, "v": fx(a()), "fl": fx(float(a)), "i": int(a), "nd": nd, "r": fx(float(round(a, nd))),
               "ab": fx(float(abs(a)))}


def gen_magnitude(seed, n):
    from pymeeus.Angle import Angle
    rng = random.Random("mag/%s" % seed)
    planets = ["Mercury", "Venus", "Mars", "Jupiter", "Saturn", "Uranus", "Neptune"]
    for _ in range(n):
        pl = rng.choice(planets)
        cls = getattr(__import__("pymeeus." + pl, fromlist=[pl]), pl)
        r, d = rng.uniform(0.3, 30.0), rng.uniform(0.3, 30.0)
        if pl in ("Mercury", "Venus", "Mars"):
            extra = (Angle(rng.uniform(0.0, 170.0)),)
        elif pl == "Saturn":
            extra = (Angle(rng.uniform(0.0, 6.0)), Angle(rng.uniform(-27.0, 27.0)))
        else:
            extra = ()
        ev = {"k": "mag", "pl": pl, "site": pl + ".magnitude", "rf": r, "df": d}
        try:
            ev.update(m=fx(cls.magnitude(r, d, *extra)), m10r=fx(cls.magnitude(10.0 * r, d, *extra)),
                      m10d=fx(cls.magnitude(r, 10.0 * d, *extra)), oc="ok")
        except Exception as ex:
            ev.update(m=BAD, m10r=BAD, m10d=BAD, oc=type(ex).__name__)
        yield ev


def gen_moonk(seed, n):
    from pymeeus.Epoch import Epoch
    from pymeeus.Moon import Moon
    rng = random.Random("moonk/%s" % seed)
    for _ in range(n):
        t = rng.uniform(2415020.5, 2488070.5)
        e = Epoch(t)
        tn, tf = Moon.moon_phase(Epoch(t), "new"), Moon.moon_phase(Epoch(t), "full")
        yield {"k": "moonk", "tf": t, "kk": fx(float(Moon.illuminated_fraction_disk(e))), "chi": fx(float(Moon.position_bright_limb(e))),
               "knew": fx(float(Moon.illuminated_fraction_disk(tn))), "kfull": fx(float(Moon.illuminated_fraction_disk(tf)))}


def gen_jsat(seed, n):
    from pymeeus.Epoch import Epoch
    from pymeeus.JupiterMoons import JupiterMoons
    rng = random.Random("jsat/%s" % seed)
    for _ in range(n):
        t = rng.uniform(2415020.5, 2488070.5)
        P = JupiterMoons.rectangular_positions_jovian_equatorial(Epoch(t))
        Q = JupiterMoons.rectangular_positions_jovian_equatorial(Epoch(t + 1.0 / 1440.0))
        yield {"k": "jsat", "tf": t, "P": [F3(list(p)) for p in P], "Q": [F3(list(q)) for q in Q]}


def gen_physical(seed, n):
    from pymeeus.Epoch import Epoch
    from pymeeus.Sun import Sun
    from pymeeus.Saturn import Saturn
    from pymeeus.Moon import Moon
    rng = random.Random("phys/%s" % seed)
    for _ in range(n):
        t = rng.uniform(2415020.5, 2488070.5)
        P, B0, L0 = [float(v) for v in Sun.ephemeris_physical_observations(Epoch(t))]
        L1 = float(Sun.ephemeris_physical_observations(Epoch(t + 1.0))[2])
        num = rng.randrange(1, 3000)
        lc = float(Sun.ephemeris_physical_observations(Sun.beginning_synodic_rotation(num))[2])
        yield {"k": "sunphys", "tf": t, "n": num, "P": fx(P), "B0": fx(B0), "L0": fx(L0), "L1": fx(L1), "lc": fx(lc)}
        B, Bp, Pp, dU, a, b = [float(v) for v in Saturn.ring_parameters(Epoch(t))]
        yield {"k": "ring", "tf": t, "B": fx(B), "Bp": fx(Bp), "dU": fx(dU), "a": fx(a), "b": fx(b), "sB": fx(math.sin(math.radians(B)))}
        lo, bo, lp, bp, lt, bt = [float(v) for v in Moon.moon_librations(Epoch(t))]
        yield {"k": "libr", "tf": t, "lo": fx(lo), "bo": fx(bo), "lp": fx(lp), "bp": fx(bp), "lt": fx(lt), "bt": fx(bt)}
