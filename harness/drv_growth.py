"""Drivers for the growth suite (behaviour outside the twenty listed properties): see spec/Trace_Growth.tla."""
import math
import random
from core import fx
from drv_sphere import F3

BAD = fx(-99999)


def gen_refraction(seed, n):
    from pymeeus.Angle import Angle
    from pymeeus import Coordinates as C
    rng = random.Random("refr/%s" % seed)
    hs = [0.0, 0.5, 1.0, 5.0, 10.0, 45.0, 89.0, 89.99] + [rng.uniform(0.0, 89.98) for _ in range(n)]
    for h in hs:
        p, T = rng.choice([(1010.0, 10.0), (rng.uniform(700, 1050), rng.uniform(-30, 40))])
        step = 0.01
        t = float(C.refraction_apparent2true(Angle(h)))
        yield {"k": "refr", "hf": h, "h": fx(h), "t": fx(t), "a": fx(float(C.refraction_true2apparent(Angle(t)))),
               "tn": fx(float(C.refraction_apparent2true(Angle(h + step)))), "p": fx(p), "T": fx(T),
               "tp": fx(float(C.refraction_apparent2true(Angle(h), p, T)))}


def gen_carrington(seed, n):
    from pymeeus.Sun import Sun
    rng = random.Random("carr/%s" % seed)
    for num in [1, 2, 1699, 2000] + [rng.randrange(1, 3000) for _ in range(n)]:
        yield {"k": "carr", "n": num, "j0": fx(Sun.beginning_synodic_rotation(num).jde()),
               "j1": fx(Sun.beginning_synodic_rotation(num + 1).jde())}


def gen_views(seed, n):
    from pymeeus.Angle import Angle
    from pymeeus.Epoch import Epoch
    rng = random.Random("views/%s" % seed)
    for _ in range(n):
        x = rng.choice([rng.uniform(0, 5.4e6), float(rng.randrange(0, 5400000)), rng.randrange(0, 5400000) + 0.5])
        e = Epoch(x)
        yield {"k": "epk", "xf": x, "x": fx(e.jde()), "fl": fx(float(e)), "i": int(e), "mjd": fx(e.mjd()),
               "hq": 1 if hash(e) == hash(Epoch(e.jde())) else 0}
        v = rng.choice([rng.uniform(-359.9, 359.9), float(rng.randrange(-359, 360)), rng.randrange(-359, 359) + 0.5])
        a = Angle(v)
        nd = rng.randrange(0, 7)
        yield {"k": "angv", "vf": v, "v": fx(a()), "fl": fx(float(a)), "i": int(a), "nd": nd, "r": fx(float(round(a, nd))),
               "ab": fx(float(abs(a)))}


def gen_magnitude(seed, n):
    from pymeeus.Angle import Angle
    rng = random.Random("mag/%s" % seed)
    planets = ["Mercury", "Venus", "Mars", "Jupiter", "Saturn", "Uranus", "Neptune"]
    for _ in range(n):
        pl = rng.choice(planets)
        cls = getattr(__import__("pymeeus." + pl, fromlist=[pl]), pl)
        r, d = rng.uniform(0.3, 30.0), rng.uniform(0.3, 30.0)
        if pl in ("Mercury", "Venus", "Mars"):
            extra = (Angle(rng.uniform(0.0, 170.0)),)
        elif pl == "Saturn":
            extra = (Angle(rng.uniform(0.0, 6.0)), Angle(rng.uniform(-27.0, 27.0)))
        else:
            extra = ()
        ev = {"k": "mag", "pl": pl, "site": pl + ".magnitude", "rf": r, "df": d}
        try:
            ev.update(m=fx(cls.magnitude(r, d, *extra)), m10r=fx(cls.magnitude(10.0 * r, d, *extra)),
                      m10d=fx(cls.magnitude(r, 10.0 * d, *extra)), oc="ok")
        except Exception as ex:
            ev.update(m=BAD, m10r=BAD, m10d=BAD, oc=type(ex).__name__)
        yield ev


def gen_moonk(seed, n):
    from pymeeus.Epoch import Epoch
    from pymeeus.Moon import Moon
    rng = random.Random("moonk/%s" % seed)
    for _ in range(n):
        t = rng.uniform(2415020.5, 2488070.5)
        e = Epoch(t)
        tn, tf = Moon.moon_phase(Epoch(t), "new"), Moon.moon_phase(Epoch(t), "full")
        yield {"k": "moonk", "tf": t, "kk": fx(float(Moon.illuminated_fraction_disk(e))), "chi": fx(float(Moon.position_bright_limb(e))),
               "knew": fx(float(Moon.illuminated_fraction_disk(tn))), "kfull": fx(float(Moon.illuminated_fraction_disk(tf)))}


def gen_jsat(seed, n):
    from pymeeus.Epoch import Epoch
    from pymeeus.JupiterMoons import JupiterMoons
    rng = random.Random("jsat/%s" % seed)
    for _ in range(n):
        t = rng.uniform(2415020.5, 2488070.5)
        P = JupiterMoons.rectangular_positions_jovian_equatorial(Epoch(t))
        Q = JupiterMoons.rectangular_positions_jovian_equatorial(Epoch(t + 1.0 / 1440.0))
        yield {"k": "jsat", "tf": t, "P": [F3(list(p)) for p in P], "Q": [F3(list(q)) for q in Q]}


def gen_jphen(seed, n):
    """Galilean satellite phenomena: the matrix of perspective distances, its pieces, the yes/no matrix.  Half of the
    instants are moved (0.01 d steps) to a moment at which some satellite is behind the planet's disk"""
    from pymeeus.Epoch import Epoch
    from pymeeus.JupiterMoons import JupiterMoons as J
    rng = random.Random("jphen/%s" % seed)
    for i in range(n):
        t = rng.uniform(2415020.5, 2488070.5)
        if i % 2:
            for _ in range(400):
                M = J.check_phenomena(Epoch(t))
                if any(0.0 <= M[r][c] <= 1.0 for r in range(4) for c in range(2)):
                    break
                t += 0.01
        e = Epoch(t)
        ev = {"k": "jphen", "tf": t}
        try:
            M = J.check_phenomena(e)
            ev["M"] = [[fx(float(v)) for v in row] for row in M]
            ev["occ"] = [fx(float(J.check_occultation(epoch=e, i_sat=s))) for s in (1, 2, 3, 4)]
            ev["ecl"] = [fx(float(J.check_eclipse(epoch=e, i_sat=s))) for s in (1, 2, 3, 4)]
            ev["one"] = [[fx(float(v)) for v in J.check_phenomena(e, False, s)] for s in (1, 2, 3, 4)]
            ev["isp"] = [[int(bool(v)) for v in row] for row in J.is_phenomena(e)]
            ev["CE"] = [F3([float(v) for v in p]) for p in J.rectangular_positions_jovian_equatorial(e)]
            ev["CS"] = [F3([float(v) for v in p]) for p in J.rectangular_positions_jovian_equatorial(e, solar=True)]
            ev["cc"] = [fx(float(J.check_coordinates(float(p[0]), float(p[1]))))
                        for p in J.rectangular_positions_jovian_equatorial(e)]
            ev["oc"] = "ok"
        except Exception as ex:
            z = fx(0)
            ev.update(cc=[z] * 4, M=[[z] * 3] * 4, occ=[z] * 4, ecl=[z] * 4, one=[[z] * 2] * 4, isp=[[0] * 3] * 4, CE=[F3([0.0] * 3)] * 4,
                      CS=[F3([0.0] * 3)] * 4, oc=type(ex).__name__)
        yield ev


def gen_jsys(seed, n):
    """JupiterMoons.jupiter_system_angles: (psi, node) now and one Julian century later, and the ascending node of Jupiter's
    orbit as Jupiter.orbital_elements_mean_equinox gives it for the same instant"""
    from pymeeus.Epoch import Epoch
    from pymeeus.Jupiter import Jupiter
    from pymeeus.JupiterMoons import JupiterMoons as J
    rng = random.Random("jsys/%s" % seed)
    for _ in range(n):
        t = rng.uniform(2415020.5, 2488070.5)
        ev = {"k": "jsys", "tf": t}
        try:
            a = J.jupiter_system_angles(Epoch(t))
            b = J.jupiter_system_angles(Epoch(t + 36525.0))
            el = Jupiter.orbital_elements_mean_equinox(Epoch(t))
            ev.update(psi=fx(float(a[0])), node=fx(float(a[1])), psi2=fx(float(b[0])), node2=fx(float(b[1])),
                      onode=fx(float(el[4])), oc="ok")
        except Exception as ex:
            z = fx(0)
            ev.update(psi=z, node=z, psi2=z, node2=z, onode=z, oc=type(ex).__name__)
        yield ev


def _oc(ex):
    return type(ex).__name__


def _rot(rng):
    """a random rotation matrix (from two random unit vectors)"""
    def unit(v):
        n = math.sqrt(sum(c * c for c in v))
        return [c / n for c in v]
    a = unit([rng.gauss(0, 1) for _ in range(3)])
    b = [rng.gauss(0, 1) for _ in range(3)]
    d = sum(x * y for x, y in zip(a, b))
    b = unit([y - d * x for x, y in zip(a, b)])
    c = [a[1] * b[2] - a[2] * b[1], a[2] * b[0] - a[0] * b[2], a[0] * b[1] - a[1] * b[0]]
    return [a, b, c]


def gen_misc(seed, n):
    """helpers no other driver reaches: reduce_dms, set_radians, set_ra, machine_accuracy, ecliptic_equator, straight_line,
    moon_position_angle_axis, JupiterMoons.calculate_delta, repr round trips"""
    import itertools
    from pymeeus.Angle import Angle
    from pymeeus.Epoch import Epoch
    from pymeeus import base
    import pymeeus.Coordinates as C
    from pymeeus.Moon import Moon
    from pymeeus.JupiterMoons import JupiterMoons as J
    from pymeeus.Interpolation import Interpolation
    from pymeeus.CurveFitting import CurveFitting
    A = Angle
    rng = random.Random("misc/%s" % seed)
    j, dec = base.machine_accuracy()
    yield {"k": "macc", "j": int(j), "dec": int(dec), "jint": 1 if j == int(j) else 0}
    for i in range(n):
        # reduce_dms: any mixture of integral and fractional, positive and negative, overflowing fields
        q = lambda v: round(v * 64) / 64.0
        D = rng.choice([q(rng.uniform(-800, 800)), float(rng.randint(-800, 800)), 0.0, 359.0, 360.0])
        M = rng.choice([q(rng.uniform(-200, 200)), float(rng.randint(0, 130)), 0.0, 59.0, 60.0])
        S = rng.choice([q(rng.uniform(-4000, 4000)), float(rng.randint(0, 130)), 0.0, 59.984375, 60.0])
        ev = {"k": "rdms", "in": [D, M, S], "D": fx(abs(D)), "M": fx(abs(M)), "S": fx(abs(S)), "neg": 1 if min(D, M, S) < 0 else 0}
        try:
            d, m, s_, sg = Angle.reduce_dms(D, M, S)
            ev.update(d=fx(float(d)), m=fx(float(m)), s=fx(float(s_)), sg=int(sg), oc="ok")
        except Exception as ex:
            ev.update(d=BAD, m=BAD, s=BAD, sg=0, oc=_oc(ex))
        yield ev
        # set_radians / set_ra on a long-lived object
        r = rng.choice([rng.uniform(-50, 50), rng.uniform(-7, 7), math.pi * rng.randint(-6, 6), 0.0])
        h = rng.choice([q(rng.uniform(-100, 100)), float(rng.randint(-48, 48)), 24.0, 0.0])
        a = Angle(123.25)
        a.set_radians(r)
        v1 = a()
        a.set_ra(h)
        v2 = a()
        yield {"k": "setang", "in": [r, h], "r": fx(r), "rd": fx(math.degrees(r)), "h": fx(h), "v1": fx(v1), "v2": fx(v2)}
        # ecliptic_equator on the ecliptic
        lon, eps = rng.uniform(0, 360), rng.uniform(20, 26)
        try:
            qq = float(C.ecliptic_equator(A(lon), A(0.0), A(eps)))
            yield {"k": "ecleq", "in": [lon, eps], "q": fx(qq), "eps": fx(eps), "cl": fx(math.cos(math.radians(lon))), "oc": "ok"}
        except Exception as ex:
            yield {"k": "ecleq", "in": [lon, eps], "q": BAD, "eps": fx(eps), "cl": fx(0), "oc": _oc(ex)}
        # straight_line: three bodies in any order; every other time exactly on one great circle (rotated equator points)
        R = _rot(rng)
        lons = sorted(rng.uniform(0, 360) for _ in range(3))
        if i % 2:
            lons = [lons[0], lons[0] + rng.uniform(1, 60), lons[0] + rng.uniform(61, 120)]
        lat3 = [0.0, 0.0, 0.0] if i % 2 == 0 else [0.0, 0.0, 0.0]
        off = 0.0 if i % 2 == 0 else 0.0
        pts = []
        bend = 0.0 if i % 4 < 2 else rng.uniform(0.5, 20.0)           # the middle body lifted off the great circle
        for kk, lo in enumerate(lons):
            la = bend if kk == 1 else 0.0
            v = [math.cos(math.radians(la)) * math.cos(math.radians(lo)), math.cos(math.radians(la)) * math.sin(math.radians(lo)),
                 math.sin(math.radians(la))]
            w = [sum(R[r_][c_] * v[r_] for r_ in range(3)) for c_ in range(3)]
            pts.append((math.degrees(math.atan2(w[1], w[0])) % 360.0, math.degrees(math.asin(max(-1.0, min(1.0, w[2]))))))
        res = []
        for perm in itertools.permutations(range(3)):
            args = []
            for p_ in perm:
                args += [A(pts[p_][0]), A(pts[p_][1])]
            try:
                psi, om = C.straight_line(*args)
                res.append(("ok", float(psi), float(om)))
            except Exception as ex:
                res.append((_oc(ex), 0.0, 0.0))
        yield {"k": "sline", "in": [list(p_) for p_ in pts], "bend": fx(bend), "oc": [r_[0] for r_ in res],
               "psi": [fx(r_[1]) for r_ in res], "om": [fx(r_[2]) for r_ in res],
               "mid": 1 if sorted(range(3), key=lambda kk: pts[kk][0])[1] == 1 else 0}
        # position angle of the Moon's axis, today and tomorrow
        t = rng.uniform(2415020.5, 2488070.5)
        p0, p1 = float(Moon.moon_position_angle_axis(Epoch(t))), float(Moon.moon_position_angle_axis(Epoch(t + 1.0)))
        yield {"k": "mpaa", "tf": t, "p0": fx(p0), "p1": fx(p1)}
        # Earth-Jupiter distance and light time
        if i % 3 == 0:
            dl = J.calculate_delta(Epoch(t))
            yield {"k": "jdelta", "tf": t, "delta": fx(float(dl[0])), "tau": fx(float(dl[1])), "len": len(dl)}
        # Galilean satellites: the chain of rotations to apparent coordinates is rigid; differential light time and perspective
        if i % 3 == 1:
            X, Y, Z = [rng.uniform(-30, 30) for _ in range(3)]
            om, ps, inc = rng.uniform(0, 360), rng.uniform(0, 360), rng.uniform(0, 5)
            l0, b0, D = rng.uniform(0, 6.28), rng.uniform(-0.1, 0.1), rng.uniform(-0.5, 0.5)
            ev = {"k": "jrot", "in": [t, X, Y, Z, om, ps, inc, l0, b0, D], "p": F3([X, Y, Z])}
            try:
                ev["q"], ev["oc"] = F3([float(v) for v in J.apparent_rectangular_coordinates(Epoch(t), X, Y, Z, om, ps, inc, l0, b0, D)]), "ok"
            except Exception as ex:
                ev["q"], ev["oc"] = F3([0.0, 0.0, 0.0]), _oc(ex)
            yield ev
            isat = rng.randint(1, 4)
            Rr = [5.9, 9.4, 15.0, 26.4][isat - 1]
            X = rng.uniform(-Rr, Rr)
            Z = rng.choice([1, -1]) * math.sqrt(max(0.0, Rr * Rr - X * X)) * rng.uniform(0.9, 1.0)
            Y = rng.uniform(-1, 1)
            dl = rng.uniform(4.0, 6.4)
            ev = {"k": "jcorr", "in": [Rr, isat, dl, X, Y, Z], "p": F3([X, Y, Z]), "delta": fx(dl), "R": fx(Rr)}
            try:
                c1 = [float(v) for v in J.correct_rectangular_positions(Rr, isat, dl, X, Y, Z)]
                c2 = [float(v) for v in J.correct_rectangular_positions(Rr, isat, dl, (X, Y, Z))]
                c3 = [float(v) for v in J.correct_rectangular_positions(Rr, isat, dl, [X, Y, Z])]
                ev.update(c1=F3(c1), c2=F3(c2), c3=F3(c3), oc="ok")
            except Exception as ex:
                z3 = F3([0.0, 0.0, 0.0])
                ev.update(c1=z3, c2=z3, c3=z3, oc=_oc(ex))
            yield ev
        # repr round trips
        av = rng.choice([q(rng.uniform(-360, 360)), rng.uniform(-360, 360), 0.0, 1e-7])
        ok_a = ok_e = ok_i = ok_c = 0
        try:
            ok_a = int(eval(repr(Angle(av)), {"Angle": Angle})() == Angle(av)())
        except Exception:
            pass
        try:
            ok_e = int(eval(repr(Epoch(t)), {"Epoch": Epoch}).jde() == Epoch(t).jde())
        except Exception:
            pass
        xs, ys = [1.0, 2.5, 4.0], [av, 2.0 * av + 1.0, -av]
        try:
            i2 = eval(repr(Interpolation(xs, ys)), {"Interpolation": Interpolation})
            ok_i = int(i2(2.0) == Interpolation(xs, ys)(2.0))
        except Exception:
            pass
        try:
            c2 = eval(repr(CurveFitting(xs, ys)), {"CurveFitting": CurveFitting})
            ok_c = int(c2.linear_fitting() == CurveFitting(xs, ys).linear_fitting())
        except ZeroDivisionError:
            ok_c = 1
        except Exception:
            pass
        yield {"k": "reprs", "in": [av, t], "a": ok_a, "e": ok_e, "i": ok_i, "c": ok_c}


def gen_physical(seed, n):
    from pymeeus.Epoch import Epoch
    from pymeeus.Sun import Sun
    from pymeeus.Saturn import Saturn
    from pymeeus.Moon import Moon
    rng = random.Random("phys/%s" % seed)
    for _ in range(n):
        t = rng.uniform(2415020.5, 2488070.5)
        P, B0, L0 = [float(v) for v in Sun.ephemeris_physical_observations(Epoch(t))]
        L1 = float(Sun.ephemeris_physical_observations(Epoch(t + 1.0))[2])
        num = rng.randrange(1, 3000)
        lc = float(Sun.ephemeris_physical_observations(Sun.beginning_synodic_rotation(num))[2])
        yield {"k": "sunphys", "tf": t, "n": num, "P": fx(P), "B0": fx(B0), "L0": fx(L0), "L1": fx(L1), "lc": fx(lc)}
        B, Bp, Pp, dU, a, b = [float(v) for v in Saturn.ring_parameters(Epoch(t))]
        yield {"k": "ring", "tf": t, "B": fx(B), "Bp": fx(Bp), "dU": fx(dU), "a": fx(a), "b": fx(b), "sB": fx(math.sin(math.radians(B)))}
        lo, bo, lp, bp, lt, bt = [float(v) for v in Moon.moon_librations(Epoch(t))]
        yield {"k": "libr", "tf": t, "lo": fx(lo), "bo": fx(bo), "lp": fx(lp), "bp": fx(bp), "lt": fx(lt), "bt": fx(bt)}


def _unit(lon, lat):
    a, d = math.radians(lon), math.radians(lat)
    return [math.cos(d) * math.cos(a), math.cos(d) * math.sin(a), math.sin(d)]


def gen_statics(seed, n):
    """static helpers of Angle / Epoch / base"""
    from pymeeus.Angle import Angle
    from pymeeus.Epoch import Epoch
    from pymeeus import base
    rng = random.Random("stat/%s" % seed)
    for _ in range(n):
        x = rng.choice([rng.uniform(-400, 400), rng.uniform(-1e6, 1e6), float(rng.randrange(-720, 721)), rng.randrange(-720, 720) + 0.5])
        d, m, s, sg = Angle.deg2dms(x)
        rd = Angle.reduce_deg(x)
        yield {"k": "stat", "xf": x, "x": fx(x), "d": int(d) if d == int(d) else -1, "m": int(m) if m == int(m) else -1, "s": fx(s),
               "sg": int(sg), "rd": fx(rd), "back": fx(Angle.dms2deg(d * sg, m * sg, s * sg))}
        y = rng.choice([rng.randrange(-4712, 6001), 1582, 1600, 1700, 1900, 2000, 100, 0, -4, -100])
        mo, dy = rng.randrange(1, 13), rng.randrange(1, 29)
        if y == 1582 and rng.random() < 0.7:
            mo, dy = 10, rng.choice([1, 4, 5, 10, 14, 15, 16])
        jd = rng.choice([rng.uniform(0, 5.4e6), 2299160.5 + rng.choice([-1.0, -1e-6, 0.0, 1e-6, 1.0])])
        yield {"k": "cal", "y": y, "m": mo, "d": dy, "leap": int(bool(Epoch.is_leap(y))), "jul": int(bool(Epoch.is_julian(y, mo, dy))),
               "jdf": jd, "jd": fx(jd), "ejul": int(bool(Epoch(jd).julian()))}
        nn = rng.choice([rng.randrange(0, 2000), rng.randrange(0, 130)])
        yield {"k": "ord", "n": nn, "suf": base.get_ordinal_suffix(nn)}
        v = rng.choice([rng.uniform(-1e6, 1e6), float(rng.randrange(-50, 50)), rng.randrange(-50, 50) + 0.5])
        yield {"k": "iint", "vf": v, "v": fx(v), "i": int(base.iint(v))}


def gen_elements(seed, n):
    from pymeeus.Epoch import Epoch
    from pymeeus.Moon import Moon
    from pymeeus.Saturn import Saturn
    rng = random.Random("elem/%s" % seed)
    planets = ["Mercury", "Venus", "Earth", "Mars", "Jupiter", "Saturn", "Uranus", "Neptune"]
    for _ in range(n):
        pl = rng.choice(planets)
        cls = getattr(__import__("pymeeus." + pl, fromlist=[pl]), pl)
        t = rng.uniform(2451545.0 - 20 * 36525.0, 2451545.0 + 20 * 36525.0)
        e = Epoch(t)
        J = [float(v) for v in cls.orbital_elements_j2000(e)]
        M = [float(v) for v in cls.orbital_elements_mean_equinox(e)]
        yield {"k": "elem", "pl": pl, "tf": t, "T": fx((t - 2451545.0) / 36525.0), "J": [fx(v) for v in J], "M": [fx(v) for v in M]}
        tn, mn = float(Moon.longitude_true_ascending_node(e)), float(Moon.longitude_mean_ascending_node(e))
        yield {"k": "mnode", "tf": t, "tn": fx(tn), "mn": fx(mn)}
        yield {"k": "ringel", "tf": t, "inc": fx(float(Saturn.ring_inclination(e))), "n0": fx(float(Saturn.ring_logitude_ascending_node(e))),
               "n1": fx(float(Saturn.ring_logitude_ascending_node(Epoch(t + 36525.0))))}


def gen_geometry(seed, n):
    from pymeeus.Angle import Angle
    from pymeeus.Epoch import Epoch
    from pymeeus.Earth import Earth
    from pymeeus import Coordinates as C
    rng = random.Random("geom/%s" % seed)
    A = Angle
    for _ in range(n):
        H, dec, phi = rng.uniform(1, 179), rng.uniform(-80, 80), rng.uniform(-80, 80)
        q1, q2 = float(C.parallactic_angle(A(H), A(dec), A(phi))), float(C.parallactic_angle(A(-H), A(dec), A(phi)))
        yield {"k": "paral", "in": [H, dec, phi], "q1": fx(q1), "q2": fx(q2)}
        th, eps = rng.uniform(0, 360), rng.uniform(22, 24.5)
        phi2 = rng.uniform(-60, 60)
        l1, l2, inc = C.ecliptic_horizon(A(th), A(phi2), A(eps))
        ra, de = C.ecliptical2equatorial(l1, A(0.0), A(eps))
        az, el = C.equatorial2horizontal(A(th) - ra, de, A(phi2))
        yield {"k": "eclhor", "in": [th, phi2, eps], "l1": fx(float(l1)), "l2": fx(float(l2)), "inc": fx(float(inc)), "el": fx(float(el))}
        d2, p2 = rng.uniform(-23, 23), rng.uniform(-60, 60)
        yield {"k": "dph", "in": [d2, p2], "j": fx(float(C.diurnal_path_horizon(A(d2), A(p2)))), "jm": fx(float(C.diurnal_path_horizon(A(-d2), A(p2)))),
               "j0": fx(float(C.diurnal_path_horizon(A(0.0), A(p2)))), "phi": fx(p2)}
        # two bodies crossing: positions at three times, separation at the tabular times
        a0, d0 = rng.uniform(20, 340), rng.uniform(-50, 50)
        va, vd, off = rng.uniform(0.2, 1.0), rng.uniform(-0.5, 0.5), rng.uniform(0.05, 0.5)
        P1 = [(a0 + va * k, d0 + vd * k) for k in (-1, 0, 1)]
        P2 = [(a0 + 0.3 * va * k + 0.2 * off, d0 - 0.4 * vd * k + off) for k in (-1, 0, 1)]
        seps = [float(C.angular_separation(A(P1[i][0]), A(P1[i][1]), A(P2[i][0]), A(P2[i][1]))) for i in range(3)]
        try:
            nmin, dmin = C.minimum_angular_separation(A(P1[0][0]), A(P1[0][1]), A(P1[1][0]), A(P1[1][1]), A(P1[2][0]), A(P1[2][1]),
                                                      A(P2[0][0]), A(P2[0][1]), A(P2[1][0]), A(P2[1][1]), A(P2[2][0]), A(P2[2][1]))
            yield {"k": "minsep", "in": [a0, d0, va, vd, off], "seps": [fx(v) for v in seps], "n": fx(float(nmin)), "dmin": fx(float(dmin)), "oc": "ok"}
        except Exception as ex:
            yield {"k": "minsep", "in": [a0, d0, va, vd, off], "seps": [fx(v) for v in seps], "n": BAD, "dmin": BAD, "oc": type(ex).__name__}
        om, q = rng.uniform(0, 360), rng.uniform(0.2, 10.0)
        T = Epoch(2451545.0 + rng.uniform(-3000, 3000))
        ta, ra_ = C.passage_nodes_parabolic(A(om), q, T, ascending=True)
        td, rd_ = C.passage_nodes_parabolic(A(om), q, T, ascending=False)
        yield {"k": "parab", "in": [om, q], "q": fx(q), "ra": fx(ra_), "rd": fx(rd_), "cw": fx(math.cos(math.radians(om))),
               "dta": fx(ta.jde() - T.jde()), "dtd": fx(td.jde() - T.jde())}
        lat = rng.uniform(-90, 90)
        e = Earth()
        yield {"k": "rho", "in": [lat], "rho": fx(float(e.rho(A(lat)))),
               "rs": fx(e.rho_sinphi(A(lat), 0.0)), "rc": fx(e.rho_cosphi(A(lat), 0.0))}
        ra0, de0 = rng.uniform(0, 360), rng.uniform(-80, 80)
        pma, pmd = rng.uniform(-1e-4, 1e-4), rng.uniform(-1e-4, 1e-4)
        eps2 = rng.uniform(22, 24.5)
        lam, bet = C.equatorial2ecliptical(A(ra0), A(de0), A(eps2))
        pl_, pb_ = C.p_motion_equa2eclip(A(pma), A(pmd), A(ra0), A(de0), bet, A(eps2))
        yield {"k": "pm", "in": [ra0, de0, pma, pmd, eps2], "pma": fx(math.radians(pma) * 1e6), "pmd": fx(math.radians(pmd) * 1e6), "pml": fx(float(pl_) * 1e6), "pmb": fx(float(pb_) * 1e6),
               "cd": fx(math.cos(math.radians(de0))), "cb": fx(math.cos(math.radians(float(bet))))}
        dist, tt = rng.uniform(1.0, 100.0), rng.uniform(-5000, 5000)
        r1, d1 = C.motion_in_space(A(ra0), A(de0), dist, 0.0, A(0.0), A(0.0), tt)
        r2, d2_ = C.motion_in_space(A(ra0), A(de0), dist, rng.uniform(-50, 50), A(pma), A(pmd), 0.0)
        yield {"k": "mis", "in": [ra0, de0, dist, tt], "u0": F3(_unit(ra0, de0)), "u1": F3(_unit(float(r1), float(d1))), "u2": F3(_unit(float(r2), float(d2_)))}
        ep = Epoch(2451545.0 + rng.uniform(-36525, 36525))
        sl = rng.uniform(0, 360)
        r3, d3 = C.apparent_position(ep, A(ra0), A(de0), A(sl))
        yield {"k": "app", "in": [ra0, de0, sl], "u0": F3(_unit(ra0, de0)), "u1": F3(_unit(float(r3), float(d3)))}


def gen_minorhelio(seed, n):
    from pymeeus.Epoch import Epoch
    from pymeeus.Angle import Angle
    from pymeeus.Minor import Minor
    import drv_geocentric as DG
    rng = random.Random("mhel/%s" % seed)
    cnt = 0
    while cnt < n:
        e = rng.choice([0.0, 0.05, 0.3, 0.7, 0.9, 0.97, 0.985, 1.0, rng.uniform(0, 0.98)])
        q = rng.choice([0.5, 1.0, 2.5, 5.0, rng.uniform(0.2, 20.0)])
        inc, node, argp = rng.uniform(0, 180), rng.uniform(0, 360), rng.uniform(0, 360)
        T = 2451545.0 + rng.uniform(-20000, 20000)
        t = T + rng.uniform(-3, 3) * 365.25
        if e < 1.0 and q / (1.0 - e) > 500.0:
            continue
        cnt += 1
        ev = {"k": "mhel", "el": [q, e, inc, node, argp, T, t], "ef": e}
        sol = DG._two_body(q, e, t - T)
        if sol is None:
            continue
        i_, o_, w_ = math.radians(inc), math.radians(node), math.radians(argp)
        per = [math.cos(o_) * math.cos(w_) - math.sin(o_) * math.sin(w_) * math.cos(i_),
               math.sin(o_) * math.cos(w_) + math.cos(o_) * math.sin(w_) * math.cos(i_), math.sin(w_) * math.sin(i_)]
        qer = [-math.cos(o_) * math.sin(w_) - math.sin(o_) * math.cos(w_) * math.cos(i_),
               -math.sin(o_) * math.sin(w_) + math.cos(o_) * math.cos(w_) * math.cos(i_), math.cos(w_) * math.sin(i_)]
        H = [sol["xp"] * per[k] + sol["yp"] * qer[k] for k in range(3)]
        r = math.sqrt(sum(v * v for v in H))
        try:
            m = Minor(q, e, Angle(inc), Angle(node), Angle(argp), Epoch(T))
            lon, lat = m.heliocentric_ecliptical_position(Epoch(t))
            ev.update(u=F3(_unit(float(lon), float(lat))), h=F3([v / r for v in H]), oc="ok")
        except Exception as ex:
            ev.update(u=F3([1.0, 0.0, 0.0]), h=F3([v / r for v in H]), oc=type(ex).__name__)
        yield ev
