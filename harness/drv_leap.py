"""Drivers for C10: leap seconds, UTC<->TT, Delta-T."""
from core import fx
import calwalk

BAD = fx(-99999)


def _ii(x):
    try:
        if x == int(x) and abs(x) < 2**31:
            return int(x)
    except Exception:
        pass
    return -1


def _last_event():
    from pymeeus.Epoch import Epoch
    try:
        y, m, d, v = Epoch.get_last_leap_second()
        return {"k": "last", "y": _ii(y), "m": _ii(m), "d": _ii(d), "v": _ii(v)}
    except Exception:
        return {"k": "last", "y": -2, "m": -2, "d": -2, "v": -2}


def gen_ls(y0, y1):
    """leap_seconds(y, m) for every month, swept twice, with get_last_leap_second() calls
    before, between and after (the table must not depend on the call history)"""
    from pymeeus.Epoch import Epoch
    yield _last_event()
    for rnd in range(2):
        for y in range(y0, y1 + 1):
            for m in range(1, 13):
                try:
                    v = _ii(Epoch.leap_seconds(y, m))
                except Exception:
                    v = -2
                yield {"k": "ls", "y": y, "m": m, "v": v}
        yield _last_event()
        yield _last_event()


_RB = {"n": 0}


def _readback(e, **kw):
    # every other read-back is preceded, on the same object, by reads with OTHER values of the same keywords and by a plain
    # read: what was asked before must not colour the answer
    _RB["n"] += 1
    if _RB["n"] % 2 == 0:
        for other in ({}, {k: (not v if isinstance(v, bool) else v + 7) for k, v in kw.items()}):
            try:
                e.get_full_date(**other)
                e.get_date(**other)
            except Exception:
                pass
    try:
        yy, mm, dd, hh, mi, ss = e.get_full_date(**kw)
        return [_ii(yy), _ii(mm), _ii(dd), _ii(hh), _ii(mi)], fx(ss)
    except Exception:
        return [-2, -2, -2, -2, -2], BAD


TIMES = [(0, 0, 0), (12, 0, 0), (23, 59, 59)]


def gen_utc(y0, y1, times=TIMES):
    from pymeeus.Epoch import Epoch
    for y in range(y0, y1 + 1):
        for m in range(1, 13):
            last = calwalk.mlen(y, m)
            for d in (1, 15, last):
                for (h, mi, s) in times:
                    ev = {"k": "utc", "y": y, "m": m, "d": d, "h": h, "mi": mi, "s": s, "last": 1 if d == last else 0}
                    try:
                        form = (y + 5 * m + d + h) % 6
                        if form == 1:
                            eu, en = Epoch((y, m, d, h, mi, s), utc=True), Epoch([y, m, d, h, mi, s])
                        elif form == 2 and (mi, s) == (0, 0):
                            eu, en = Epoch(y, m, d, h, utc=True), Epoch(y, m, d, h)              # four values: hour only
                        elif form == 3 and (mi, s) == (0, 0):
                            eu, en = Epoch([y, m, d, h], utc=True), Epoch((y, m, d, h))
                        elif form == 4 and s == 0:
                            eu, en = Epoch(y, m, d, h, mi, utc=True), Epoch((y, m, d, h, mi))    # five values
                        elif form == 5:
                            eu, en = Epoch(2000, 1, 1.5), Epoch(1990, 6, 6)
                            # a long-lived object: set and read back (UTC) in ANOTHER era of the leap-second history first
                            eu.set(1975 if y >= 1985 else 2017, 3, 15.5, utc=True)
                            _readback(eu, utc=True)
                            eu.get_date(utc=True)
                            eu.set(y, m, d, h, mi, s, utc=True)
                            en.set(y, m, d, h, mi, s)
                        else:
                            eu = Epoch(y, m, d, h, mi, s, utc=True)
                            en = Epoch(y, m, d, h, mi, s)
                        ev["ju"], ev["jn"] = fx(eu.jde()), fx(en.jde())
                        ev["rb"], ev["rbs"] = _readback(eu, utc=True)
                    except Exception:
                        ev["ju"], ev["jn"], ev["rb"], ev["rbs"] = BAD, fx(0), [-2] * 5, BAD
                    yield ev


def gen_ovr(y0, y1, ks):
    from pymeeus.Epoch import Epoch
    for y in range(y0, y1 + 1):
        for m in (1, 2, 6, 7, 12):
            for kk in ks:
                d, h, mi, s = 1 + (kk % 28), (kk * 7) % 24, (kk * 11) % 60, (kk * 13) % 60
                ev = {"k": "ovr", "y": y, "m": m, "d": d, "h": h, "mi": mi, "s": s, "kk": kk}
                try:
                    # the override alone, or together with utc=True (which it implies): the same instant either way
                    en = Epoch(y, m, d, h, mi, s)
                    form = (y + m + kk) % 5
                    if form == 1:
                        eu = Epoch(y, m, d, h, mi, s, leap_seconds=kk)
                    elif form == 2:
                        eu = Epoch(en.jde(), leap_seconds=kk)               # the same civil instant given as one Julian Day number
                    elif form == 3:
                        eu = Epoch((y, m, d, h, mi, s), leap_seconds=kk)
                    elif form == 4:
                        eu = Epoch(1999, 12, 31)
                        eu.set(en.jde(), leap_seconds=kk)
                    else:
                        eu = Epoch(y, m, d, h, mi, s, utc=True, leap_seconds=kk)
                    ev["ju"], ev["jn"] = fx(eu.jde()), fx(en.jde())
                    ev["rb"], ev["rbs"] = _readback(eu, leap_seconds=kk)
                except Exception:
                    ev["ju"], ev["jn"], ev["rb"], ev["rbs"] = BAD, fx(0), [-2] * 5, BAD
                yield ev


def gen_dt(y0, y1):
    from pymeeus.Epoch import Epoch
    for y in range(y0, y1 + 1):
        for m in range(1, 13):
            try:
                dt = fx(Epoch.tt2ut(y, m))
            except Exception:
                dt = BAD
            yield {"k": "dt", "y": y, "m": m, "dt": dt}
