"""Drivers for C03 / C04: the Angle class."""
import math
import random
import re
from fractions import Fraction
from core import fx, sgn

BAD = fx(-99999)
ZF = {"neg": 0, "a": fx(0), "nz": 0, "p": 0}


def _ii(x):
    try:
        if x == int(x) and abs(x) < 2**31:
            return int(x)
    except Exception:
        pass
    return -1


def _field(txt):
    """a printed field as text -> [neg, magnitude]; purely representational"""
    t = txt.strip()
    neg = 1 if t.startswith("-") else 0
    if neg:
        t = t[1:]
    fr = Fraction(t)
    return {"neg": neg, "a": fx(fr), "nz": 1 if fr != 0 else 0, "p": 1}


_FANCY = re.compile(r"^(?:(-?[0-9.eE+-]+)[dh] )?(?:(-?[0-9.eE+-]+)' )?(-?[0-9.eE+-]+)''$")


def tokenise(s, fancy):
    """-> (ok, [deg, min, sec] fields).  No interpretation beyond splitting."""
    try:
        if fancy:
            m = _FANCY.match(s)
            if not m:
                return 0, [ZF, ZF, ZF]
            g = m.groups()
            return 1, [_field(g[0]) if g[0] is not None else ZF,
                       _field(g[1]) if g[1] is not None else ZF, _field(g[2])]
        parts = s.split(":")
        if len(parts) != 3:
            return 0, [ZF, ZF, ZF]
        return 1, [_field(p) for p in parts]
    except Exception:
        return 0, [ZF, ZF, ZF]


def _nudge(x, k):
    for _ in range(abs(k)):
        x = math.nextafter(x, math.inf if k > 0 else -math.inf)
    return x


def sexa_values(seed, n, shard):
    """Angle values in (-360, 360) concentrated at whole seconds/minutes/degrees, 0 and +-360"""
    rng = random.Random("sexa/%s/%s" % (seed, shard))
    out = []
    while len(out) < n:
        r = rng.random()
        ra = rng.random() < 0.5
        if r < 0.75:
            if ra:
                d, scale = rng.choice([0, 1, 11, 12, 22, 23, rng.randrange(24)]), 15.0
            else:
                d, scale = rng.choice([0, 1, 59, 179, 180, 358, 359, rng.randrange(360)]), 1.0
            m = rng.choice([0, 1, 29, 58, 59, rng.randrange(60)])
            s = rng.choice([0, 1, 30, 58, 59, rng.randrange(60)])
            kind = rng.randrange(4)
            if kind == 0:
                s = 0
            elif kind == 1:
                m = s = 0
            base = (d + m / 60.0 + s / 3600.0) * scale
            nd = rng.randrange(0, 13)
            u = (10.0 ** -nd) / 3600.0 * scale
            off = rng.choice([0.0, 1e-12, -1e-12, 0.4 * u, -0.4 * u, 0.5 * u, -0.5 * u, 0.6 * u, -0.6 * u, 1e-9, -1e-9])
            v = base + off
            v = _nudge(v, rng.choice([0, 0, 1, -1, 2, -2, 3, -3]))
        elif r < 0.85:
            v = rng.choice([0.0, 360.0, 180.0, 15.0, 345.0]) + rng.choice([0, 1e-13, -1e-13, 1e-10, -1e-10, 1e-5, -1e-5])
            v = _nudge(v, rng.choice([0, 1, -1]))
        else:
            v = rng.uniform(-360, 360)
        if rng.random() < 0.5:
            v = -v
        if -360.0 < v < 360.0:
            out.append(v)
    return out


def gen_sexa(seed, n, shard):
    from pymeeus.Angle import Angle
    for v in sexa_values(seed, n, shard):
        a = Angle(v)
        val = a()
        fv = fx(val)
        vs = (val > 0) - (val < 0)
        for ra in (0, 1):
            try:
                de, mi, se, sg = (a.ra_tuple() if ra else a.dms_tuple())
                yield {"k": "tup", "x": val, "vs": vs, "v": fv, "ra": ra, "de": _ii(de), "mi": _ii(mi),
                       "se": fx(se) if isinstance(se, (int, float)) and math.isfinite(se) else BAD,
                       "sg": _ii(sg), "ity": 1 if (isinstance(de, int) and isinstance(mi, int)) else 0}
            except Exception as ex:
                yield {"k": "tup", "x": val, "vs": vs, "v": fv, "ra": ra, "de": -2, "mi": -2, "se": BAD, "sg": 0, "ity": 0}
            for fancy in (1, 0):
                for nd in (-1, 0, 1, 2, 3, 4, 6, 9, 12):
                    try:
                        s = a.ra_str(bool(fancy), nd) if ra else a.dms_str(bool(fancy), nd)
                        ok, F = tokenise(s, fancy)
                    except Exception as ex:
                        s, ok, F = "raised " + type(ex).__name__, 0, [ZF, ZF, ZF]
                    yield {"k": "str", "x": val, "vs": vs, "v": fv, "ra": ra, "fancy": fancy, "nd": nd, "ok": ok, "F": F, "raw": s}


def gen_sexa_grid(n, degs, offs):
    """spec -> code: the value set MC_Sexa enumerates (k fine units of 10^-(n+1) arcsec),
    printed with n decimals; each state TLC visited becomes one implementation test"""
    from pymeeus.Angle import Angle
    fine = 10 ** (n + 1)
    for d in degs:
        for m in range(60):
            for s in (0, 1, 29, 58, 59):
                for off in offs:
                    k = (d * 3600 + m * 60 + s) * fine + off
                    if k < 0:
                        k += 360 * 3600 * fine
                    v = float(Fraction(k, fine * 3600))
                    if not (0.0 <= v < 360.0):
                        continue
                    a = Angle(v)
                    val = a()
                    fv = fx(val)
                    vs = (val > 0) - (val < 0)
                    for fancy in (0, 1):
                        try:
                            st = a.dms_str(bool(fancy), n)
                            ok, F = tokenise(st, fancy)
                        except Exception as ex:
                            st, ok, F = "raised " + type(ex).__name__, 0, [ZF, ZF, ZF]
                        yield {"k": "str", "x": val, "vs": vs, "v": fv, "ra": 0, "fancy": fancy, "nd": n, "ok": ok, "F": F, "raw": st}
