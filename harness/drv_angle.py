"""Drivers for C03 / C04: the Angle class."""
import math
import random
import re
from fractions import Fraction
from core import fx, sgn

BAD = fx(-99999)
ZF = {"neg": 0, "a": fx(0), "nz": 0, "p": 0}


def _ii(x):
    try:
        if x == int(x) and abs(x) < 2**31:
            return int(x)
    except Exception:
        pass
    return -1


def _field(txt):
    """a printed field as text -> [neg, magnitude]; purely representational"""
    t = txt.strip()
    neg = 1 if t.startswith("-") else 0
    if neg:
        t = t[1:]
    fr = Fraction(t)
    return {"neg": neg, "a": fx(fr), "nz": 1 if fr != 0 else 0, "p": 1}


_FANCY = re.compile(r"^(?:(-?[0-9.eE+-]+)[dh] )?(?:(-?[0-9.eE+-]+)' )?(-?[0-9.eE+-]+)''$")


def tokenise(s, fancy):
    """-> (ok, [deg, min, sec] fields).  No interpretation beyond splitting."""
    try:
        if fancy:
            m = _FANCY.match(s)
            if not m:
                return 0, [ZF, ZF, ZF]
            g = m.groups()
            return 1, [_field(g[0]) if g[0] is not None else ZF,
                       _field(g[1]) if g[1] is not None else ZF, _field(g[2])]
        parts = s.split(":")
        if len(parts) != 3:
            return 0, [ZF, ZF, ZF]
        return 1, [_field(p) for p in parts]
    except Exception:
        return 0, [ZF, ZF, ZF]


def _nudge(x, k):
    for _ in range(abs(k)):
        x = math.nextafter(x, math.inf if k > 0 else -math.inf)
    return x


def sexa_values(seed, n, shard):
    """Angle values in (-360, 360) concentrated at whole seconds/minutes/degrees, 0 and +-360"""
    rng = random.Random("sexa/%s/%s" % (seed, shard))
    out = []
    while len(out) < n:
        r = rng.random()
        ra = rng.random() < 0.5
        if r < 0.75:
            if ra:
                d, scale = rng.choice([0, 1, 11, 12, 22, 23, rng.randrange(24)]), 15.0
            else:
                d, scale = rng.choice([0, 1, 59, 179, 180, 358, 359, rng.randrange(360)]), 1.0
            m = rng.choice([0, 1, 29, 58, 59, rng.randrange(60)])
            s = rng.choice([0, 1, 30, 58, 59, rng.randrange(60)])
            kind = rng.randrange(4)
            if kind == 0:
                s = 0
            elif kind == 1:
                m = s = 0
            base = (d + m / 60.0 + s / 3600.0) * scale
            nd = rng.randrange(0, 13)
            u = (10.0 ** -nd) / 3600.0 * scale
            off = rng.choice([0.0, 1e-12, -1e-12, 0.4 * u, -0.4 * u, 0.5 * u, -0.5 * u, 0.6 * u, -0.6 * u, 1e-9, -1e-9])
            v = base + off
            v = _nudge(v, rng.choice([0, 0, 1, -1, 2, -2, 3, -3]))
        elif r < 0.85:
            v = rng.choice([0.0, 360.0, 180.0, 15.0, 345.0]) + rng.choice([0, 1e-13, -1e-13, 1e-10, -1e-10, 1e-5, -1e-5])
            v = _nudge(v, rng.choice([0, 1, -1]))
        else:
            v = rng.uniform(-360, 360)
        if rng.random() < 0.5:
            v = -v
        if -360.0 < v < 360.0:
            out.append(v)
    return out


def gen_sexa(seed, n, shard):
    from pymeeus.Angle import Angle
    for i, v in enumerate(sexa_values(seed, n, shard)):
        a = Angle(v)
        # "any Angle": also Angles carrying a non-default comparison tolerance (set directly or inherited by a copy);
        # the tolerance belongs to == and must not leak into the decomposition or the printed forms
        tol = (None, None, 0.0, 1e-3, 1e-6)[i % 5]
        if tol is not None:
            a.set_tolerance(tol)
            if i % 2:
                a = Angle(a)
        if i % 7 == 3:
            # an Angle that went through to_positive() (values just below zero end up just below 360)
            a = Angle(-abs(v) if i % 14 == 3 else -10.0 ** -(5 + i % 17))
            if i % 2:
                # ... and that was decomposed and printed BEFORE (whatever those calls left in the object is stale now)
                a.dms_tuple(), a.ra_tuple(), a.dms_str(), a.ra_str(), a.rad(), a.get_ra()
            a.to_positive()
        elif i % 7 == 5:
            # a long-lived Angle: decomposed and printed, then given its value by one of the in-place setters
            a = Angle(-33.3125)
            a.dms_tuple(), a.ra_tuple(), a.dms_str(), a.ra_str(), a.rad(), a.get_ra()
            (a.set, a.set_ra, a.set_radians)[i % 3]((v, v / 15.0, math.radians(v))[i % 3])
        val = a()
        fv = fx(val)
        vs = (val > 0) - (val < 0)
        for ra in (0, 1):
            try:
                de, mi, se, sg = (a.ra_tuple() if ra else a.dms_tuple())
                yield {"k": "tup", "x": val, "vs": vs, "v": fv, "ra": ra, "de": _ii(de), "mi": _ii(mi),
                       "se": fx(se) if isinstance(se, (int, float)) and math.isfinite(se) else BAD,
                       "sg": _ii(sg), "ity": 1 if (isinstance(de, int) and isinstance(mi, int)) else 0}
            except Exception as ex:
                yield {"k": "tup", "x": val, "vs": vs, "v": fv, "ra": ra, "de": -2, "mi": -2, "se": BAD, "sg": 0, "ity": 0}
            for fancy in (1, 0):
                for nd in (-1, 0, 1, 2, 3, 4, 6, 9, 12):
                    try:
                        s = a.ra_str(bool(fancy), nd) if ra else a.dms_str(bool(fancy), nd)
                        ok, F = tokenise(s, fancy)
                    except Exception as ex:
                        s, ok, F = "raised " + type(ex).__name__, 0, [ZF, ZF, ZF]
                    yield {"k": "str", "x": val, "vs": vs, "v": fv, "ra": ra, "fancy": fancy, "nd": nd, "ok": ok, "F": F, "raw": s, "tight": 0}


def gen_sexa_ties(seed, n, shard):
    """small angles (below one degree / one hour: the decomposition is exact to ~2e-13 arcsec there) whose seconds lie a few
    1e-11 arcsec either side of a rounding tie of the requested decimal: the printed value is the stored value rounded
    ONCE at that decimal (judged with a slack of 2e-15 deg = 7e-12 arcsec instead of 1e-9 deg)"""
    from pymeeus.Angle import Angle
    rng = random.Random("sexaties/%s/%s" % (seed, shard))
    for _ in range(n):
        nd = rng.choice([0, 0, 1, 2, 3, 4, 6])
        ra = rng.randrange(2)
        mi = rng.choice([0, 0, rng.randrange(60)])
        k = rng.choice([0, 0, 12, 29, 58, 59, rng.randrange(60)])
        j = rng.randrange(10 ** min(nd, 3)) if nd else 0
        tie = Fraction(k) + (Fraction(2 * j + 1, 2) / 10 ** nd)
        delta = Fraction(rng.choice([15, 30, 45, 100, 1000, 10 ** 5]), 10 ** 12) * rng.choice([1, -1])
        secs = mi * 60 + tie + delta
        v = float(secs / 3600 * (15 if ra else 1)) * rng.choice([1, 1, -1])
        a = Angle(v)
        if ra and v < 0:
            continue
        val = a()
        vs = (val > 0) - (val < 0)
        for fancy in (1, 0):
            try:
                st = a.ra_str(bool(fancy), nd) if ra else a.dms_str(bool(fancy), nd)
                ok, F = tokenise(st, fancy)
            except Exception as ex:
                st, ok, F = "raised " + type(ex).__name__, 0, [ZF, ZF, ZF]
            yield {"k": "str", "x": val, "vs": vs, "v": fx(val), "ra": ra, "fancy": fancy, "nd": nd, "ok": ok, "F": F, "raw": st, "tight": 1}


def gen_sexa_grid(n, degs, offs):
    """spec -> code: the value set MC_Sexa enumerates (k fine units of 10^-(n+1) arcsec),
    printed with n decimals; each state TLC visited becomes one implementation test"""
    from pymeeus.Angle import Angle
    fine = 10 ** (n + 1)
    for d in degs:
        for m in range(60):
            for s in (0, 1, 29, 58, 59):
                for off in offs:
                    k = (d * 3600 + m * 60 + s) * fine + off
                    if k < 0:
                        k += 360 * 3600 * fine
                    v = float(Fraction(k, fine * 3600))
                    if not (0.0 <= v < 360.0):
                        continue
                    a = Angle(v)
                    val = a()
                    fv = fx(val)
                    vs = (val > 0) - (val < 0)
                    for fancy in (0, 1):
                        try:
                            st = a.dms_str(bool(fancy), n)
                            ok, F = tokenise(st, fancy)
                        except Exception as ex:
                            st, ok, F = "raised " + type(ex).__name__, 0, [ZF, ZF, ZF]
                        yield {"k": "str", "x": val, "vs": vs, "v": fv, "ra": 0, "fancy": fancy, "nd": n, "ok": ok, "F": F, "raw": st, "tight": 0}


# ---------------------------------------------------------------------------
# C03
# ---------------------------------------------------------------------------
PI50 = Fraction("3.14159265358979323846264338327950288419716939937510")


def _oc(ex):
    n = type(ex).__name__
    return n if n in ("TypeError", "ValueError", "ZeroDivisionError") else "other:" + n


def _sg(x):
    return (x > 0) - (x < 0)


def _state(a):
    return (repr(a()), repr(a._tol))


def _float_inputs(rng, n):
    out = []
    specials = [0.0, 360.0, -360.0, 720.0, -720.0, 180.0, 359.99999999999994, 5e-324, -5e-324, 1e-300, -1e-300,
                1e15, -1e15, 360.0 * 2**40, -360.0 * 12345678901.0, 1080.0, 3600000.0]
    for s in specials:
        for k in (0, 1, -1):
            out.append(_nudge(s, k))
    while len(out) < n:
        r = rng.random()
        if r < 0.25:
            out.append(float(rng.randint(-10**6, 10**6)) * 360.0)
        elif r < 0.5:
            out.append(rng.uniform(-1, 1) * 10 ** rng.uniform(-3, 15))
        elif r < 0.7:
            out.append(rng.uniform(-720, 720))
        elif r < 0.85:
            out.append(rng.randint(-10**15, 10**15))
        else:
            out.append(_nudge(360.0 * rng.randint(-5, 5), rng.randint(-3, 3)))
    return out[:n]


def _new_event(form, ctor, exact, ins, **extra):
    ev = {"k": "new", "form": form, "xin": fx(exact) if exact is not None else fx(0), "ins": ins,
          "d": fx(0), "m": fx(0), "s": fx(0), "sg4": 1}
    ev.update(extra)
    try:
        a = ctor()
        v = a()
        ev["v"], ev["vs"], ev["oc"], ev["obs"] = fx(v), _sg(v), "ok", v
    except Exception as ex:
        ev["v"], ev["vs"], ev["oc"] = fx(0), 0, _oc(ex)
    return ev


def gen_new(seed, n, shard):
    from pymeeus.Angle import Angle
    rng = random.Random("new/%s/%s" % (seed, shard))
    for x in _float_inputs(rng, n):
        ex = Fraction(x)
        ins = _sg(x)
        form = rng.choice(["args", "tuple1", "list1"])
        if form == "args":
            yield _new_event("deg", lambda: Angle(x), ex, ins, inp=float(x), via=form)
        elif form == "tuple1":
            yield _new_event("deg", lambda: Angle((x,)), ex, ins, inp=float(x), via=form)
        else:
            yield _new_event("deg", lambda: Angle([x]), ex, ins, inp=float(x), via=form)
        # the same number as radians and as hours of right ascension (smaller magnitudes)
        xr = x if abs(x) < 1e13 else x / 1e3
        if isinstance(xr, float) or isinstance(xr, int):
            exr = Fraction(xr) * 180 / PI50
            yield _new_event("rad", lambda: Angle(xr, radians=True), exr, _sg(xr), inp=float(xr), via="radians")
            exh = Fraction(xr) * 15
            yield _new_event("ra", lambda: Angle(xr, ra=True), exh, _sg(xr), inp=float(xr), via="ra")
    # sexagesimal pieces
    for _ in range(n):
        d = rng.choice([0, 0.0, rng.randint(0, 800), rng.uniform(0, 720), rng.randint(0, 359)])
        m = rng.choice([0, rng.randint(0, 59), rng.uniform(0, 60), rng.uniform(0, 600), 60, 59.99999999999999, rng.randint(60, 100000)])
        s = rng.choice([0, 0.0, rng.uniform(0, 60), rng.uniform(0, 5000), 60.0, 59.99999999999999, 3600, rng.randint(0, 10**6)])
        neg = rng.randrange(8)          # which pieces carry a minus sign
        if neg & 1:
            d = -d
        if neg & 2 and rng.random() < 0.5:
            m = -m
        if neg & 4 and rng.random() < 0.3:
            s = -s
        pieces = {"d": fx(d), "m": fx(m), "s": fx(s)}
        anyneg = (d < 0) or (m < 0) or (s < 0)
        anynz = (d != 0) or (m != 0) or (s != 0)
        ins = (-1 if anyneg else 1) if anynz else 0
        form = rng.choice(["a2", "a3", "a4", "t2", "t3", "t4", "l3"])
        sg4 = 1
        if form in ("a2", "t2"):
            s = 0
            pieces["s"] = fx(0)
            anyneg = (d < 0) or (m < 0)
            anynz = (d != 0) or (m != 0)
            ins = (-1 if anyneg else 1) if anynz else 0
        if form in ("a4", "t4"):
            sg4 = rng.choice([1, -1, 1.0, -1.0])
            if sg4 < 0 and anynz:
                ins = -1
        ctor = {"a2": lambda: Angle(d, m), "a3": lambda: Angle(d, m, s), "a4": lambda: Angle(d, m, s, sg4),
                "t2": lambda: Angle((d, m)), "t3": lambda: Angle((d, m, s)), "t4": lambda: Angle((d, m, s, sg4)),
                "l3": lambda: Angle([d, m, s])}[form]
        yield _new_event("dms", ctor, None, ins, via=form, sg4=int(sg4), inp=[float(d), float(m), float(s)], **pieces)


GRID = [0, 1, -1, 0.5, -0.5, 0.0625, 90, -90, 180, -180, 270, 359.5, -359.5, 359.9375, -359.9375, 12.25, -45.75, 300, -300, 7]


def _operands(rng):
    from pymeeus.Angle import Angle
    r = rng.random()
    if r < 0.5:
        v = rng.choice(GRID)
    elif r < 0.8:
        v = rng.uniform(-360, 360)
    else:
        v = rng.uniform(-1, 1) * 10 ** rng.uniform(-6, 2)
    kind = rng.choice("AAIF")
    if kind == "A":
        if not (-360 < v < 360):
            v = v % 360
        a = Angle(v)
        if rng.random() < 0.15:
            # an operand carrying a non-default comparison tolerance (it belongs to ==, not to the arithmetic)
            a.set_tolerance(rng.choice([0.5, 1e-3, 0.0]))
            if rng.random() < 0.5:
                a = Angle(a)
        return "A", a
    if kind == "I":
        return "I", int(v)
    return "F", float(v)


def _val(o):
    from pymeeus.Angle import Angle
    return o() if isinstance(o, Angle) else o


def gen_ops(seed, n, shard):
    import operator
    from pymeeus.Angle import Angle
    rng = random.Random("ops/%s/%s" % (seed, shard))
    BIN = {"add": operator.add, "sub": operator.sub, "mul": operator.mul, "div": operator.truediv,
           "mod": operator.mod, "pow": operator.pow}
    INP = {"iadd": operator.iadd, "isub": operator.isub, "imul": operator.imul, "idiv": operator.itruediv,
           "imod": operator.imod, "ipow": operator.ipow}
    names = list(BIN) + list(INP) + ["radd", "rsub", "rmul", "rdiv", "rmod", "rpow", "neg", "abs"]
    cnt = 0
    while cnt < n:
        if cnt % 40 == 7:
            # a tiny but NON-ZERO plain divisor is not a division by zero (only the outcome, the range and the operands
            # are judged: the quotient itself is beyond the fixed-point range)
            cnt += 1
            xv = rng.choice([rng.uniform(-359, 359), 30.0, 1e-12, -1e-9])
            yv = rng.choice([9e-11, -2.5e-11, 1e-200, -1e-150, 10.0 ** -rng.uniform(10, 280), 1e-10 * (1 - 2 ** -40)])
            if not math.isfinite(xv / yv):
                continue
            a = Angle(xv)
            opn = rng.choice(["div", "idiv"])
            ev = {"k": "tinydiv", "op": opn, "xf": xv, "yf": yv, "x": fx(a())}
            st0 = _state(a)
            try:
                res = (a / yv) if opn == "div" else INP["idiv"](a, yv)
                ev.update(oc="ok", rty=1 if isinstance(res, Angle) else 0, r=fx(res() if isinstance(res, Angle) else 0.0))
            except Exception as ex:
                ev.update(oc=_oc(ex), rty=0, r=fx(0))
            ev["same"] = 1 if _state(a) == st0 else 0
            yield ev
            continue
        op = rng.choice(names)
        ak, a = _operands(rng)
        if ak != "A":
            a = Angle(a)
        bk, b = _operands(rng)
        base = op.lstrip("ir") if op not in ("radd", "rsub", "rmul", "rdiv", "rmod", "rpow") else op[1:]
        if op in ("iadd", "isub", "imul", "idiv", "imod", "ipow"):
            base = op[1:]
        refl = op in ("radd", "rsub", "rmul", "rdiv", "rmod", "rpow")
        if refl and bk == "A":
            bk, b = "F", float(b())          # reflected forms need a plain number on the left
        if rng.random() < 0.08 and base in ("div", "mod"):
            # divisor exactly zero
            if refl:
                a = Angle(0.0)
            else:
                b = rng.choice([0, 0.0, Angle(0.0)])
                bk = "A" if isinstance(b, Angle) else ("I" if isinstance(b, int) else "F")
        n_exp = -1
        if base == "pow":
            n_exp = rng.randint(0, 4)
            if refl:
                a = Angle(float(n_exp))           # exponent is the Angle's value
                if abs(b) > 30:
                    b = b % 30
            else:
                b = rng.choice([n_exp, float(n_exp), Angle(float(n_exp))])
                bk = "A" if isinstance(b, Angle) else ("I" if isinstance(b, int) else "F")
                if abs(a()) > 30:
                    a = Angle(a() % 30)
        if base == "sub" and bk == "A" and not refl and rng.random() < 0.3:
            tol_b = b.get_tolerance()
            b = Angle(max(-359.9, min(359.9, a() + rng.choice([0.25, -0.01, 3e-4, 1e-7]))))     # a close neighbour of a
            b.set_tolerance(tol_b)
        if base == "div" and bk == "A" and not refl and rng.random() < 0.25:
            b = Angle(rng.choice([1, -1]) * 10 ** rng.uniform(-5.9, -2.6))                     # a small Angle divisor
        if base in ("div", "mod"):
            # "is the divisor zero" is itself decided with the operands' tolerance: keep the default there
            for o in (a, b):
                if isinstance(o, Angle):
                    o.set_tolerance(1e-10)
        # mathematical operands
        x, y = (_val(b), a()) if refl else (a(), _val(b))
        if base == "mod" and not (y > 0 or y == 0):
            continue
        if base in ("div", "mod") and y != 0 and abs(y) < (1e-6 if (base == "div" and bk == "A" and not refl) else 1e-3):
            continue
        if base == "mod" and y != 0 and Fraction(y) != Fraction(fx(y)["s"] * sum(l * 10000 ** i for i, l in enumerate(fx(y)["d"])), 10 ** 16):
            continue            # modulus must be transported exactly
        if base == "mul" and abs(x * y) > 1e12:
            continue
        before = (_state(a), _state(b) if isinstance(b, Angle) else repr(b))
        alias = a
        ev = {"k": "op", "op": op, "ak": "A", "bk": bk, "x": fx(x), "y": fx(y), "yz": 1 if y == 0 else 0,
              "n": n_exp, "q": fx(0), "xf": float(x), "yf": float(y)}
        try:
            if op in BIN:
                res = BIN[op](a, b)
            elif op in INP:
                c = a
                c = INP[op](c, b)
                res = c
            elif refl:
                res = BIN[base](b, a)
            elif op == "neg":
                res = -a
                ev["y"] = fx(0)
            else:
                res = abs(a)
                ev["y"] = fx(0)
            ev["oc"] = "ok"
            ev["rty"] = 1 if isinstance(res, Angle) else 0
            rv = res() if isinstance(res, Angle) else float("nan")
            ev["r"], ev["rs"], ev["rf"] = fx(rv), _sg(rv), rv
        except Exception as ex:
            ev["oc"], ev["rty"], ev["r"], ev["rs"] = _oc(ex), 0, fx(0), 0
        after = (_state(alias), _state(b) if isinstance(b, Angle) else repr(b))
        ev["same"] = 1 if before == after else 0
        if base == "div" and y != 0:
            ev["q"] = fx(Fraction(x) / Fraction(y))
        if base == "mod" and y > 0:
            fq = abs(Fraction(x)) / Fraction(y)
            ev["q"] = fx(fq.numerator // fq.denominator)
        cnt += 1
        yield ev
    # to_positive and the views
    for x in _float_inputs(rng, max(50, n // 10)) + [-1e-20, -1e-17, -5e-324, -359.99999999999994, -360.0 + 1e-13]:
        a = Angle(x)
        v0 = a()
        r = a.to_positive()
        yield {"k": "pos", "x": fx(v0), "xf": v0, "r": fx(a()), "rs": _sg(a()), "rf": a(), "self": 1 if r is a else 0}
        b = Angle(x)
        yield {"k": "view", "v": fx(b()), "rad": fx(b.rad()), "ra": fx(b.get_ra()), "xf": b()}
        # the same views of an object whose views were read before and that was then re-targeted through every documented
        # way of setting it (also the argument-less reset): a view belongs to the value the object holds NOW
        c = Angle(x)
        c.rad(), c.get_ra(), c.dms_tuple()
        y2 = rng.choice([12.5, -200.25, 359.0, 0.0009765625, rng.uniform(-360, 360)])
        how = rng.randrange(9)
        if how == 0:
            c.set()
        elif how == 1:
            c.set(y2)
        elif how == 2:
            c.set(int(y2), 30, 15.5)
        elif how == 3:
            c.set((int(y2), 30, 15.5))
        elif how == 4:
            c.set(Angle(y2))
        elif how == 5:
            c.set_radians(math.radians(y2))
        elif how == 6:
            c.set_ra(y2 / 15.0)
        elif how == 7:
            c.set_ra()
        else:
            c.set(y2 / 15.0, ra=True)
        yield {"k": "view", "v": fx(c()), "rad": fx(c.rad()), "ra": fx(c.get_ra()), "xf": c(), "how": how}
