"""Drivers for C01 / C16: one event per civil day from the real Epoch class."""
from core import fx
import calwalk


def _i2(x):
    """2*x as an int when that is exact, else -1 (representational test only)"""
    try:
        v = x * 2.0
        if v == int(v) and abs(v) < 2**31:
            return int(v)
    except Exception:
        pass
    return -1


def _ii(x):
    try:
        if x == int(x) and abs(x) < 2**31:
            return int(x)
    except Exception:
        pass
    return -1


def _try(f):
    try:
        return f()
    except Exception:
        return None


def gen_c01(y0, y1):
    from pymeeus.Epoch import Epoch
    shared = Epoch(2000, 1, 1.5)
    shared.get_date()
    for (y, m, d, n) in calwalk.days(y0, y1):
        ev = {"k": "c01", "y": y, "m": m, "d": d}
        e = None
        try:
            if n % 3 == 1:
                # "build an Epoch from (y, m, d)" also means: give an existing Epoch that date with set(); every third
                # day re-targets one long-lived object whose date was read before
                shared.set(y, m, d)
                e = shared
            else:
                e = Epoch(y, m, d)
            ev["j2n"] = _i2(e.jde())
        except Exception:
            ev["j2n"] = -2
        if n % 5 == 2:
            # the month helper asked for the other kind of answer first (name <-> number, both spellings)
            for nm in (calwalk.SHORT[m - 1], calwalk.LONG[m - 1], m):
                try:
                    Epoch.get_month(nm, as_string=True)
                    Epoch.get_month(nm)
                except Exception:
                    pass
        try:
            ev["j2s"] = _i2(Epoch(y, calwalk.SHORT[m - 1], d).jde())
        except Exception:
            ev["j2s"] = -2
        try:
            ev["j2l"] = _i2(Epoch(y, calwalk.LONG[m - 1], d).jde())
        except Exception:
            ev["j2l"] = -2
        try:
            yy, mm, dd = e.get_date()
            ev["rb"] = [_ii(yy), _ii(mm), _ii(dd)]
        except Exception:
            ev["rb"] = [-2, -2, -2]
        try:
            ev["j12"] = _ii(Epoch(y, m, d, 12).jde())
        except Exception:
            ev["j12"] = -2
        try:
            ev["mjd2"] = _i2(e.mjd())
        except Exception:
            ev["mjd2"] = -2
        ev["nxj2"] = -1
        try:
            ev["nxj2"] = _i2(Epoch(y, m, d + 1).jde())
            ev["nx"] = 1
        except ValueError:
            ev["nx"] = 0
        except Exception:
            ev["nx"] = 2
        try:
            Epoch(y, m, 0)
            ev["lo"] = 1
        except ValueError:
            ev["lo"] = 0
        except Exception:
            ev["lo"] = 2
        yield ev


def gen_c16(y0, y1):
    from pymeeus.Epoch import Epoch
    bad = fx(-99999)
    shared = Epoch(2000, 1, 1.5)
    for (y, m, d, n) in calwalk.days(y0, y1):
        ev = {"k": "c16", "y": y, "m": m, "d": d, "n": n}
        if n % 3 == 0:
            # one long-lived Epoch walked through the days with set(): its views must follow it
            shared.set(y, m, d)
            e0 = shared
        else:
            e0 = Epoch(y, m, d)
        e12 = Epoch(y, m, d, 12)
        e23 = Epoch(y, m, d, 23, 59, 59)
        for key, e in (("w0", e0), ("w12", e12), ("w23", e23)):
            try:
                ev[key] = _ii(e.dow())
            except Exception:
                ev[key] = -2
        try:
            ev["doy2"] = _i2(e0.doy())
        except Exception:
            ev["doy2"] = -2
        try:
            ev["doy2h"] = _i2(e12.doy())
        except Exception:
            ev["doy2h"] = -2
        try:
            ev["gd"] = _ii(Epoch.get_doy(y, m, d))
        except Exception:
            ev["gd"] = -2
        try:
            yy, mm, dd = Epoch.doy2date(y, n)
            ev["dd"] = [_ii(yy), _ii(mm), _ii(dd)]
        except Exception:
            ev["dd"] = [-2, -2, -2]
        try:
            yy, mm, dd = Epoch.doy2date(y, n + 0.5)
            ev["ddh"] = [_ii(yy), _ii(mm), _i2(dd)]
        except Exception:
            ev["ddh"] = [-2, -2, -2]
        try:
            ev["lp"] = 1 if e0.leap() else 0
        except Exception:
            ev["lp"] = -2
        for key, e in (("yr0", e0), ("yr12", e12), ("yr23", e23)):
            try:
                ev[key] = fx(e.year())
            except Exception:
                ev[key] = bad
        yield ev


def _jde_inputs(seed, n, shard, nshards):
    """JDE in [0, 5.4e6]: day/half-day boundaries with +-ulp .. +-1 s offsets, and uniform random"""
    import random
    import math
    rng = random.Random("%s/%s" % (seed, shard))
    out = []
    nb = n // 2
    for _ in range(nb // 19 + 1):
        base = float(rng.randrange(0, 5400000)) + rng.choice([0.0, 0.5])
        for off in (0.0, 1, -1, 2, -2, 1e-6 / 86400, -1e-6 / 86400, 1.0 / 86400, -1.0 / 86400):
            if isinstance(off, int):
                x = base
                for _k in range(abs(off)):
                    x = math.nextafter(x, math.inf if off > 0 else -math.inf)
            else:
                x = base + off
            if 0.0 <= x <= 5.4e6:
                out.append(x)
        # a fraction of a second after 0h UT (the library treats "at 0h UT" apart), and around the instant of the day at
        # which the mean sidereal time passes through zero (the instant is only chosen with the library's help)
        day0 = math.floor(base) + 0.5
        for off in (2e-7, 5e-7, 1e-6, 3e-6):
            out.append(day0 + off)
        try:
            from pymeeus.Epoch import Epoch
            m0 = Epoch(day0).mean_sidereal_time()
            wrap = day0 + (1.0 - m0) / 1.00273790935
            for off in (1e-7, 1e-6, 5e-6, 1.2e-5, -1e-6, -1.2e-5):
                out.append(wrap + off)
        except Exception:
            pass
    rng.shuffle(out)
    while len(out) < n:
        out.append(rng.uniform(0.0, 5.4e6))
    return out[:n]


def gen_sidereal(seed, n, shard, nshards):
    import math
    from pymeeus.Epoch import Epoch
    from pymeeus.Earth import Earth
    from pymeeus.Coordinates import true_obliquity, nutation_longitude
    for x in _jde_inputs(seed, n, shard, nshards):
        e = Epoch(x)
        jde = e.jde()
        mst = e.mean_sidereal_time()
        mst1 = Epoch(jde + 1.0).mean_sidereal_time()
        eps = true_obliquity(e)
        dpsi = nutation_longitude(e)
        ast = e.apparent_sidereal_time(eps, dpsi)
        yield {"k": "sid", "x": jde, "jde": fx(jde), "jde1": fx(Epoch(jde + 1.0).jde()), "mst": fx(mst), "mst1": fx(mst1),
               "ast": fx(ast), "dpsi": fx(float(dpsi)), "ceps": fx(math.cos(math.radians(float(eps))))}
