"""Driver for C17: CurveFitting on 1/4-grid data (so that the specification's sums are exact)."""
import itertools
import math
import random
from core import fx

BAD = fx(-99999)


def _oc(ex):
    n = type(ex).__name__
    return n if n in ("TypeError", "ValueError", "ZeroDivisionError") else "other:" + n


def _q(v):
    return round(v * 4) / 4.0


def _build(rng, xs, ys, form):
    from pymeeus.CurveFitting import CurveFitting
    if form == "lists":
        return CurveFitting(list(xs), list(ys))
    if form == "tuples":
        return CurveFitting(tuple(xs), tuple(ys))
    if form == "flat":
        flat = []
        for a, b in zip(xs, ys):
            flat += [a, b]
        return CurveFitting(*flat)
    if form == "set":
        c = CurveFitting([0, 1, 2], [5, 7, 1])
        c.set(list(xs), list(ys))
        return c
    if form == "asked_then_set":
        # an object that has already answered every question about OTHER data, then is given these: whatever the first
        # answers left behind in it must not leak into the fit of the data set last
        c = CurveFitting([0, 1, 2, 4], [5, 7, 1, -3])
        for q in (c.linear_fitting, c.quadratic_fitting, c.correlation_coeff,
                  lambda: c.general_fitting(lambda x: x * x, lambda x: x, lambda x: 1.0)):
            try:
                q()
            except Exception:
                pass
        c.set(list(xs), list(ys))
        return c
    if form == "ylonger":
        return CurveFitting(list(xs), list(ys) + [123.25, -7.5])       # surplus ordinates belong to no pair
    if form == "xlonger":
        return CurveFitting(list(xs) + [55.5], list(ys))               # (documented: the extra abscissa is dropped)
    if form == "copy":
        return CurveFitting(CurveFitting(list(xs), list(ys)))
    if form == "copy_reset":
        # the source of a copy, after the copy was given other data: it must still fit ITS data
        src = CurveFitting(list(xs), list(ys))
        cpy = CurveFitting(src)
        cpy.set([v + 1.0 for v in xs] + [0.5], [3.0 * v - 2.0 for v in ys] + [7.25])
        try:
            cpy.linear_fitting()
        except ZeroDivisionError:
            pass
        return src
    raise ValueError(form)


def _datasets(seed, shard, n):
    rng = random.Random("cf/%s/%s" % (seed, shard))
    for i in range(n):
        kind = rng.random()
        npts = rng.choice([2, 3, 3, 4, 5, 6, 8, 10, 15, 20, 30]) if rng.random() < 0.97 else rng.choice([100, 200])
        if kind < 0.07:      # symmetric about zero
            k = rng.choice([2, 3, 4, 5, 8])
            xs = [float(v) for v in range(-k, k + 1)] if rng.random() < 0.6 else [_q(v * 0.75) for v in range(-k, k + 1)]
            npts = len(xs)
        elif kind < 0.25:    # spread abscissae
            xs = [_q(rng.uniform(-1000, 1000)) for _ in range(npts)]
        elif kind < 0.45:    # small integers / quarter steps
            xs = [_q(rng.uniform(-8, 8)) for _ in range(npts)]
        elif kind < 0.6:     # clustered around a centre
            c = _q(rng.uniform(-1000, 1000))
            xs = [c + _q(rng.uniform(-3, 3)) for _ in range(npts)]
        elif kind < 0.7:     # equally spaced
            x0, h = _q(rng.uniform(-50, 50)), rng.choice([0.25, 0.5, 1, 2, 7.5])
            xs = [x0 + h * j for j in range(npts)]
        elif kind < 0.8:     # degenerate: one abscissa only
            v = _q(rng.choice([rng.uniform(-8, 8), rng.uniform(-1000, 1000)]))
            xs = [v] * npts
        elif kind < 0.9:     # degenerate for the parabola: two distinct abscissae
            a, b = _q(rng.uniform(-8, 8)), _q(rng.uniform(-8, 8))
            xs = [rng.choice([a, b]) for _ in range(npts)]
        else:
            xs = [float(j) for j in range(npts)]
        # ordinates
        yk = rng.random()
        a, b, c = _q(rng.uniform(-3, 3)), _q(rng.uniform(-20, 20)), _q(rng.uniform(-100, 100))
        if yk < 0.3:
            ys = [b * x + c for x in xs]                      # noiseless line (collinear)
        elif yk < 0.55:
            ys = [a * x * x + b * x + c for x in xs]          # noiseless parabola
        elif yk < 0.65:
            ys = [c] * len(xs)                                # constant
        else:
            ys = [_q(b * x + c + rng.uniform(-30, 30)) for x in xs]   # noisy
        if max(abs(v) for v in ys) > 1e7:
            continue
        yield xs, ys, rng


def _pad3(vals):
    vals = list(vals) + [0.0] * (3 - len(vals))
    return [fx(v) if isinstance(v, (int, float)) and math.isfinite(v) else BAD for v in vals[:3]]


def gen_fit(seed, shard, n):
    for xs, ys, rng in _datasets(seed, shard, n):
        # permutation and input form independence: shuffle and vary the form
        idx = list(range(len(xs)))
        if rng.random() < 0.7:
            rng.shuffle(idx)
        xs = [xs[i] for i in idx]
        ys = [ys[i] for i in idx]
        form = rng.choice(["lists", "tuples", "flat", "set", "asked_then_set", "copy", "copy_reset", "ylonger", "xlonger"])
        if form == "flat" and len(xs) < 2:
            form = "lists"
        try:
            cf = _build(rng, xs, ys, form)
        except Exception as ex:
            yield {"k": "lin", "xs": [fx(v) for v in xs], "ys": [fx(v) for v in ys], "oc": "ctor:" + _oc(ex),
                   "c": _pad3([]), "r": fx(0), "ysc": fx(1), "form": form, "n": len(xs), "basis": "", "nb": 0,
                   "Bs": [[], [], []], "singular": 0}
            continue
        # the data AS GIVEN are the reference (never what the object stored)
        base = {"xs": [fx(v) for v in xs], "ys": [fx(v) for v in ys], "form": form, "n": len(xs),
                "ysc": fx(max(1.0, max(abs(v) for v in ys))), "r": fx(0), "basis": "", "nb": 0,
                "Bs": [[], [], []], "singular": 0, "xf": list(xs), "yf": list(ys),
                "ndist": len(set(xs)), "xmax": max(abs(v) for v in xs), "ydist": len(set(ys)),
                "ymax": max(abs(v) for v in ys),
                "xrel": (max(xs) - min(xs)) / max(1e-300, max(abs(v) for v in xs)),
                "yrel": (max(ys) - min(ys)) / max(1e-300, max(abs(v) for v in ys))}
        for kind, call in (("lin", lambda: cf.linear_fitting()), ("quad", lambda: cf.quadratic_fitting())):
            ev = dict(base, k=kind)
            try:
                ev["c"], ev["oc"] = _pad3(call()), "ok"
            except Exception as ex:
                ev["c"], ev["oc"] = _pad3([]), _oc(ex)
            yield ev
        ev = dict(base, k="corr", c=_pad3([]))
        try:
            r = cf.correlation_coeff()
            ev["r"], ev["oc"] = (fx(r) if math.isfinite(r) else BAD), "ok"
        except Exception as ex:
            ev["oc"] = _oc(ex)
        yield ev
        # the same data in other units (exact power-of-two rescalings): the correlation coefficient is unchanged by a positive
        # change of scale of either variable, whatever the unit
        sy, sx = rng.choice([2.0 ** -20, 2.0 ** -27, 2.0 ** -34, 2.0 ** 10]), rng.choice([1.0, 2.0 ** -20, 2.0 ** 8])
        ev = dict(base, k="corr2", c=_pad3([]), r2=fx(0), oc2="ok")
        for key, ock, xx, yy in (("r", "oc", xs, ys), ("r2", "oc2", [v * sx for v in xs], [v * sy for v in ys])):
            try:
                rr = _build(rng, xx, yy, "lists").correlation_coeff()
                ev[key], ev[ock] = (fx(rr) if math.isfinite(rr) else BAD), "ok"
            except Exception as ex:
                ev[key], ev[ock] = BAD, _oc(ex)
        yield ev
        # a basis function that is tiny on these abscissae (exp x for x around -15, one of the listed basis functions): the
        # fit is well posed; the column and its coefficient are handed to the specification in units of 2^-20 (exact)
        if len(xs) >= 6 and rng.random() < 0.25:
            ne = max(len(xs), rng.choice([6, 12, 21, 30]))
            xe = [-18.0 + 5.0 * (i + rng.random()) / ne for i in range(ne)]
            ye = [_q(2.0 * x + 3.0 + rng.uniform(-1, 1)) for x in xe]
            fs_ = [lambda x: x, lambda x: 1.0]
            pos = rng.randrange(3)
            fs_.insert(pos, math.exp)
            S = 2.0 ** 20
            cols = [[fx((fs_[j](x)) * (S if j == pos else 1.0)) for x in xe] for j in range(3)]
            ev = {"k": "gen", "xs": [fx(v) for v in xe], "ys": [fx(v) for v in ye], "form": "lists", "n": len(xe), "basis": "free", "nb": 3,
                  "Bs": cols, "singular": 0, "r": fx(0), "ysc": fx(max(1.0, max(abs(v) for v in ye))), "xf": xe, "yf": ye,
                  "ndist": len(set(xe)), "xmax": 18.0, "ydist": len(set(ye)), "ymax": max(abs(v) for v in ye), "xrel": 0.2, "yrel": 0.2}
            # (for the known-findings predicate only: the unscaled Gram determinant and diagonal product, exactly)
            from fractions import Fraction as F
            cu = [[F(fs_[j](x)) for x in xe] for j in range(3)]
            g = [[sum(a * b for a, b in zip(cu[i], cu[j])) for j in range(3)] for i in range(3)]
            det = (g[0][0] * (g[1][1] * g[2][2] - g[1][2] ** 2) - g[0][1] * (g[0][1] * g[2][2] - g[1][2] * g[0][2])
                   + g[0][2] * (g[0][1] * g[1][2] - g[1][1] * g[0][2]))
            ev["basis"], ev["dabs"], ev["mrt"] = "free", float(abs(det)), float(g[0][0] * g[1][1] * g[2][2])
            ev["tiny"] = 1
            try:
                cc = list(_build(rng, xe, ye, "lists").general_fitting(*fs_))
                cc[pos] = cc[pos] / S
                ev["c"], ev["oc"] = _pad3(cc), "ok"
            except Exception as ex:
                ev["c"], ev["oc"] = _pad3([]), _oc(ex)
            yield ev
        # general fitting
        which = rng.choice(["x2x1", "x1", "free", "free1", "perm", "perm"])
        f_sq, f_id, f_one = (lambda x: x * x), (lambda x: x), (lambda x: 1.0)
        if which == "perm":
            # the same three functions in another order (on symmetric abscissae the odd one is orthogonal to the even ones)
            fs, nb = rng.choice([[f_sq, f_one, f_id], [f_one, f_sq, f_id], [f_id, f_one, f_sq], [f_one, f_id, f_sq]]), 3
        elif which == "x2x1":
            fs, nb = [f_sq, f_id, f_one], 3
        elif which == "x1":
            fs, nb = [f_id, f_one], 2
        elif which == "free":
            w = rng.choice([0.01, 0.1, 1.0])
            fs, nb = [lambda x: math.sin(w * x), lambda x: math.cos(w * x), f_one], 3
        else:
            w = rng.choice([0.01, 0.1])
            fs, nb = [lambda x: math.exp(-abs(w * x) / 100.0)], 1
        ev = dict(base, k="gen", basis=which if which in ("x2x1", "x1") else ("perm" if which == "perm" else "free"), nb=nb)
        cols = []
        for j in range(3):
            if j < nb:
                cols.append([fx(fs[j](x)) for x in xs])
            else:
                cols.append([fx(0) for _ in xs])
        ev["Bs"] = cols
        try:
            ev["c"], ev["oc"] = _pad3(cf.general_fitting(*fs)), "ok"
        except Exception as ex:
            ev["c"], ev["oc"] = _pad3([]), _oc(ex)
            # a raised ZeroDivisionError is legitimate for a free basis only if the basis is (nearly) dependent
            ev["singular"] = 1 if (len(set(xs)) < nb + 1) else 0
        yield ev


def gen_grid(np_, lo, hi, part, parts):
    """spec -> code: every data set MC_CurveFit enumerates (x, y in -lo..hi) goes through the real class"""
    from pymeeus.CurveFitting import CurveFitting
    vals = list(range(-lo, hi + 1))
    i = 0
    for xs in itertools.product(vals, repeat=np_):
        for ys in itertools.product(vals, repeat=np_):
            i += 1
            if i % parts != part:
                continue
            cf = CurveFitting(list(xs), list(ys))
            base = {"xs": [fx(v) for v in xs], "ys": [fx(v) for v in ys], "form": "lists", "n": np_,
                    "ysc": fx(max(1, max(abs(v) for v in ys))), "r": fx(0), "basis": "", "nb": 0,
                    "Bs": [[], [], []], "singular": 0, "xf": list(xs), "yf": list(ys),
                    "ndist": len(set(xs)), "xmax": max(abs(v) for v in xs), "ydist": len(set(ys)),
                "ymax": max(abs(v) for v in ys),
                "xrel": (max(xs) - min(xs)) / max(1e-300, max(abs(v) for v in xs)),
                "yrel": (max(ys) - min(ys)) / max(1e-300, max(abs(v) for v in ys))}
            for kind, call in (("lin", cf.linear_fitting), ("quad", cf.quadratic_fitting)):
                ev = dict(base, k=kind)
                try:
                    ev["c"], ev["oc"] = _pad3(call()), "ok"
                except Exception as ex:
                    ev["c"], ev["oc"] = _pad3([]), _oc(ex)
                yield ev
            ev = dict(base, k="corr", c=_pad3([]))
            try:
                r = cf.correlation_coeff()
                ev["r"], ev["oc"] = (fx(r) if math.isfinite(r) else BAD), "ok"
            except Exception as ex:
                ev["oc"] = _oc(ex)
            yield ev
