"""Driver for C18: Earth ellipsoid quantities, surface distance, topocentric parallax."""
import math
import random
from core import fx

BAD = fx(-99999)


def _oc(ex):
    n = type(ex).__name__
    return n if n in ("TypeError", "ValueError", "ZeroDivisionError") else "other:" + n


def _ellipsoids(rng, nuser):
    from pymeeus.Earth import Ellipsoid, IAU76, WGS84
    # (name, object, the parameters AS GIVEN): a, f, omega are never read back from the object - the published
    # constants of the two built-in ellipsoids and the arguments of the user ones are the reference
    out = [("IAU76", IAU76, (6378140.0, 1.0 / 298.257, 7.292114992e-5)), ("WGS84", WGS84, (6378137.0, 1.0 / 298.257223563, 7292115e-11))]
    for i in range(nuser):
        f = rng.choice([0.0, 0.01, 1.0 / 298.257, rng.uniform(0, 0.01)])
        a = rng.choice([6378137.0, 6378140.0, 1737400.0, rng.uniform(1e6, 7e7)])
        om = rng.uniform(1e-5, 1e-4)
        out.append(("user%d" % i, Ellipsoid(a, f, om), (a, f, om)))
    return out


def gen_ell(seed, shard, nlat, nuser):
    from pymeeus.Earth import Earth
    from pymeeus.Angle import Angle
    rng = random.Random("ell/%s/%s" % (seed, shard))
    for idx, (name, ell, (pa, pf, pom)) in enumerate(_ellipsoids(rng, nuser)):
        if (idx + shard) % 2 == 0:
            e = Earth(ell)
        else:
            # the same ellipsoid reached through set() on an object built for another one
            from pymeeus.Earth import Ellipsoid
            e = Earth(Ellipsoid(6000000.0, 0.01, 7e-5))
            e.set(ell)
        lats = sorted(set([-90.0, 90.0, 0.0, 45.0, -45.0, 1e-9, -1e-9, 89.999999, -89.999999]
                          + [-90.0 + 180.0 * (i + rng.random()) / nlat for i in range(nlat)]))
        for i, lat in enumerate(lats):
            h = rng.choice([0.0, -500.0, 9000.0, rng.uniform(-500, 9000)])
            arg = lat if i % 3 else Angle(lat)
            ev = {"k": "ell", "ell": name, "latf": lat, "hf": h, "a": fx(pa), "f": fx(pf), "om": fx(pom),
                  "lat": fx(lat), "h": fx(h), "sphi": fx(math.sin(math.radians(lat))), "cphi": fx(math.cos(math.radians(lat)))}
            try:
                ev.update(rc=fx(e.rho_cosphi(arg, h)), rs=fx(e.rho_sinphi(arg, h)), rc0=fx(e.rho_cosphi(arg, 0.0)),
                          rs0=fx(e.rho_sinphi(arg, 0.0)), rp=fx(e.rp(arg)), rm=fx(e.rm(arg)), vel=fx(e.linear_velocity(arg)), oc="ok")
            except Exception as ex:
                ev.update(rc=BAD, rs=BAD, rc0=BAD, rs0=BAD, rp=BAD, rm=BAD, vel=BAD, oc=_oc(ex))
            yield ev


def gen_ellhist(seed, shard, n, nuser):
    """History on ONE long-lived Earth object: set(ellipsoid) interleaved with queries (in a seeded order of the seven
    methods, so that whatever one query leaves behind in the object is seen by the others and survives - or not - the next
    set()).  The events are ordinary "ell" events carrying the parameters of the ellipsoid set LAST (the model's current
    ellipsoid): every clause of VerdictEll must hold for the currently set ellipsoid whatever was set or asked before."""
    from pymeeus.Earth import Earth
    from pymeeus.Angle import Angle
    rng = random.Random("ellhist/%s/%s" % (seed, shard))
    pool = _ellipsoids(rng, nuser)
    name, ell, (pa, pf, pom) = pool[0]
    e = Earth(ell)
    for i in range(n):
        r = rng.random()
        if r < 0.25:
            name, ell, (pa, pf, pom) = rng.choice(pool)
            if rng.random() < 0.2:
                e = Earth(ell)
            else:
                e.set(ell)
            if rng.random() < 0.5:
                continue            # two set() in a row, or a set() straight after a set()
        lat = rng.choice([-90.0, 90.0, 0.0, 45.0, -45.0, rng.uniform(-90, 90), rng.uniform(-90, 90)])
        h = rng.choice([0.0, -500.0, 9000.0, rng.uniform(-500, 9000)])
        arg = lat if i % 3 else Angle(lat)
        ev = {"k": "ell", "ell": "hist:" + name, "latf": lat, "hf": h, "if": i, "a": fx(pa), "f": fx(pf), "om": fx(pom),
              "lat": fx(lat), "h": fx(h), "sphi": fx(math.sin(math.radians(lat))), "cphi": fx(math.cos(math.radians(lat)))}
        calls = [("rc", lambda: e.rho_cosphi(arg, h)), ("rs", lambda: e.rho_sinphi(arg, h)), ("rc0", lambda: e.rho_cosphi(arg, 0.0)),
                 ("rs0", lambda: e.rho_sinphi(arg, 0.0)), ("rp", lambda: e.rp(arg)), ("rm", lambda: e.rm(arg)),
                 ("vel", lambda: e.linear_velocity(arg))]
        rng.shuffle(calls)
        try:
            for key, fn in calls:
                ev[key] = fx(fn())
            ev["oc"] = "ok"
        except Exception as ex:
            ev.update(rc=BAD, rs=BAD, rc0=BAD, rs0=BAD, rp=BAD, rm=BAD, vel=BAD, oc=_oc(ex))
        yield ev


def _hav(lon1, lat1, lon2, lat2):
    p1, p2 = math.radians(lat1), math.radians(lat2)
    dl = math.radians(lon2 - lon1)
    h = math.sin((p2 - p1) / 2) ** 2 + math.cos(p1) * math.cos(p2) * math.sin(dl / 2) ** 2
    return 2.0 * math.asin(min(1.0, math.sqrt(h)))


def gen_dist(seed, shard, n, nuser):
    from pymeeus.Earth import Earth
    rng = random.Random("dist/%s/%s" % (seed, shard))
    ells = _ellipsoids(rng, nuser)
    for _ in range(n):
        name, ell, (pa, pf, pom) = rng.choice(ells)
        e = Earth(ell)
        if rng.random() < 0.3:
            from pymeeus.Earth import IAU76
            e = Earth(IAU76)
            e.set(ell)
        kind = rng.choice(["random", "random", "equator", "meridian", "same", "near", "far", "overpole"])
        lon1, lat1 = rng.uniform(-180, 180), rng.uniform(-89, 89)
        lon2, lat2 = rng.uniform(-180, 180), rng.uniform(-89, 89)
        if kind == "equator":
            lat1 = lat2 = 0.0
        elif kind == "meridian":
            lon2 = lon1
            if abs(lat2 - lat1) < 1e-3:
                lat2 = -lat1 + 1.0
        elif kind == "same":
            lon2, lat2 = lon1, lat1
        elif kind == "near":
            lon2, lat2 = lon1 + rng.choice([1e-7, 1e-5, 1e-3]), lat1 + rng.choice([0.0, 1e-7, 1e-5])
        elif kind == "overpole":
            # opposite meridians: the connecting meridian runs over a pole; also nearly (not exactly) antipodal pairs
            lon2 = lon1 + 180.0 if lon1 < 0 else lon1 - 180.0
            lat2 = -lat1 + rng.choice([1, -1]) * rng.choice([1e-5, 1e-4, 1e-3, 0.01, 0.1, 1.0, 5.0, 30.0, 80.0])
            lat2 = max(-89.9, min(89.9, lat2))
        elif kind == "far":
            lon2, lat2 = lon1 + 180.0 - rng.choice([0.0, 0.5, 3.0, 10.0]), -lat1 + rng.choice([0.0, 0.5, 3.0])
        conv = rng.random() if kind not in ("same", "near") else 1.0      # (x % 360 is not exactly congruent to x in floats)
        if conv < 0.15:
            lon2 = lon2 % 360.0                      # the second longitude in the 0..360 convention
        elif conv < 0.25:
            lon1, lon2 = lon1 % 360.0, lon2 % 360.0  # both
        elif conv < 0.3:
            lon1 = lon1 % 360.0
        same = 1 if (lon1 == lon2 and lat1 == lat2) else 0
        ev = {"k": "dist", "ell": name, "kind": kind, "p": [lon1, lat1, lon2, lat2], "a": fx(pa), "f": fx(pf), "same": same,
              "eq": 0, "mer": 0, "gc": 0, "dlon": fx(0), "dint": fx(0), "sig": fx(0), "ff": pf}
        try:
            d12 = e.distance(lon1, lat1, lon2, lat2)[0]
            d21 = e.distance(lon2, lat2, lon1, lat1)[0]
            ev.update(d12=fx(d12), d21=fx(d21), oc="ok", d12f=d12)
        except Exception as ex:
            ev.update(d12=BAD, d21=BAD, oc=_oc(ex))
            yield ev
            continue
        sig = _hav(lon1, lat1, lon2, lat2)
        if kind == "equator":
            dl = abs(lon2 - lon1) % 360.0
            dl = min(dl, 360.0 - dl)
            if dl < 179.0:
                ev.update(eq=1, dlon=fx(dl))
        if kind == "meridian":
            # Simpson integral of the library's own meridian radius of curvature (harness oracle)
            lo, hi = min(lat1, lat2), max(lat1, lat2)
            m = 400
            hstep = (hi - lo) / m
            acc = e.rm(lo) + e.rm(hi)
            for i in range(1, m):
                acc += (4 if i % 2 else 2) * e.rm(lo + i * hstep)
            ev.update(mer=1, dint=fx(acc * math.radians(hstep) / 3.0))
        if kind == "overpole" and lat1 + lat2 != 0.0:
            # the meridian through both points passes over the nearer pole (lat1 + lat2 > 0: the north pole)
            pole = 90.0 if lat1 + lat2 > 0 else -90.0
            tot = 0.0
            for la in (lat1, lat2):
                lo, hi = min(la, pole), max(la, pole)
                m = 400
                hstep = (hi - lo) / m
                acc = e.rm(lo) + e.rm(hi)
                for i in range(1, m):
                    acc += (4 if i % 2 else 2) * e.rm(lo + i * hstep)
                tot += acc * math.radians(hstep) / 3.0
            ev.update(mer=1, dint=fx(tot))
        if 1e-9 < sig < math.radians(170.0):
            ev.update(gc=1, sig=fx(sig))
        yield ev


def _unit(ra, dec):
    a, d = math.radians(ra), math.radians(dec)
    return [fx(math.cos(d) * math.cos(a)), fx(math.cos(d) * math.sin(a)), fx(math.sin(d))]


def gen_par(seed, shard, n):
    from pymeeus.Earth import Earth
    from pymeeus.Angle import Angle
    rng = random.Random("par/%s/%s" % (seed, shard))
    for _ in range(n):
        ra, dec = rng.uniform(0, 360), rng.choice([rng.uniform(-89, 89), rng.uniform(-89.9, -85), rng.uniform(85, 89.9), 0.0])
        lat = rng.choice([rng.uniform(-90, 90), 0.0, 45.0, -45.0, 90.0, -90.0])
        dist = 10 ** rng.uniform(-3, 3)
        ha = rng.uniform(0, 360)
        h = rng.choice([0.0, 9000.0, -500.0, rng.uniform(-500, 9000)])
        ev = {"k": "par", "raf": ra, "decf": dec, "latf": lat, "distf": dist, "haf": ha, "hf": h, "dist": fx(dist),
              "u0": _unit(ra, dec)}
        try:
            ra1, dec1 = Earth.parallax_correction(Angle(ra), Angle(dec), Angle(lat), dist, Angle(ha), h)
            ev.update(u1=_unit(float(ra1), float(dec1)), oc="ok", ra1=float(ra1), dec1=float(dec1))
        except Exception as ex:
            ev.update(u1=_unit(0.0, 0.0), oc=_oc(ex))
        yield ev
        # the same body through the ecliptical form of the correction (Meeus 40.6-40.8)
        lon, blat = rng.uniform(0, 360), rng.choice([rng.uniform(-89, 89), rng.uniform(-6, 6), rng.uniform(-6, 6), 0.0])
        semi = rng.uniform(0.001, 0.3)
        eps, st = rng.uniform(22.0, 24.5), rng.uniform(0, 360)
        ev = {"k": "pare", "site": "pare", "lonf": lon, "blatf": blat, "latf": lat, "distf": dist, "stf": st, "hf": h, "dist": fx(dist),
              "u0": _unit(lon, blat), "semi": fx(math.sin(math.radians(semi)))}
        try:
            tl, tb, ts = Earth.parallax_ecliptical(Angle(lon), Angle(blat), Angle(semi), Angle(lat), Angle(eps), Angle(st), dist, h)
            ev.update(u1=_unit(float(tl), float(tb)), oc="ok", tlon=float(tl), tlat=float(tb), tsemi=fx(math.sin(math.radians(float(ts)))),
                      latok=1 if -90.0 <= float(tb) <= 90.0 else 0)
        except Exception as ex:
            ev.update(u1=_unit(0.0, 0.0), oc=_oc(ex), tsemi=fx(0.0), latok=0)
        yield ev
