"""Driver for C12: Interpolation objects on quarter-grid abscissae."""
import math
import random
from fractions import Fraction
from core import fx

BAD = fx(-99999)


def _oc(ex):
    n = type(ex).__name__
    return n if n in ("TypeError", "ValueError", "ZeroDivisionError") else "other:" + n


def _poly(coefs, x):
    """value and derivative of sum coefs[k] x^k in exact rationals"""
    x = Fraction(x)
    v = Fraction(0)
    d = Fraction(0)
    for k in range(len(coefs) - 1, -1, -1):
        d = d * x + v
        v = v * x + Fraction(coefs[k])
    return v, d


def _touching(coefs, kind, lo, hi):
    """input class: the generating polynomial (its derivative for minmax) comes within 1e-3 of its
    scale of zero at a point of [lo, hi] where its own derivative (nearly) vanishes - a double or
    nearly double root, on which the implementation's Newton/regula-falsi switch is known to stall"""
    if coefs is None or not (lo < hi):
        return 0
    c = [float(v) for v in coefs]
    if kind == "minmax":
        c = [k * c[k] for k in range(1, len(c))] or [0.0]
    d = [k * c[k] for k in range(1, len(c))] or [0.0]

    def ev(cc, x):
        v = 0.0
        for a in reversed(cc):
            v = v * x + a
        return v
    n = 1500
    xs = [lo + (hi - lo) * i / n for i in range(n + 1)]
    pv = [ev(c, x) for x in xs]
    dv = [ev(d, x) for x in xs]
    ps, ds = max(1e-300, max(abs(v) for v in pv)), max(1e-300, max(abs(v) for v in dv))
    for i in range(n):
        # an extremum of the function between two grid points (derivative changes sign or is tiny) with a tiny value
        if (dv[i] * dv[i + 1] <= 0 or abs(dv[i]) < 0.02 * ds) and min(abs(pv[i]), abs(pv[i + 1])) < 2e-3 * ps:
            return 1
    return 0


def _build(form, xs, ys):
    from pymeeus.Interpolation import Interpolation
    if form == "lists":
        return Interpolation(list(xs), list(ys))
    if form == "tuples":
        return Interpolation(tuple(xs), tuple(ys))
    if form == "flat":
        flat = []
        for a, b in zip(xs, ys):
            flat += [a, b]
        return Interpolation(*flat)
    if form == "set":
        it = Interpolation([0, 1, 2], [3, -1, 4])
        it.set(list(xs), list(ys))
        return it
    if form == "set_twice":
        it = Interpolation()
        it.set([10.0, 12.5, 11.0, 14.0], [1.0, -2.0, 0.5, 7.0])
        it.set(list(xs), list(ys))
        return it
    if form == "asked_then_set":
        # an object that has already been asked everything about ANOTHER table, then is given this one
        it = Interpolation([10.0, 12.5, 11.0, 14.0], [1.0, -2.0, 0.5, 7.0])
        for q in (lambda: it(11.7), lambda: it.derivative(12.0), it.minmax, it.root):
            try:
                q()
            except Exception:
                pass
        it.set(list(xs), list(ys))
        return it
    if form == "copy":
        return Interpolation(Interpolation(list(xs), list(ys)))
    if form == "copy_reset":
        # the source of a copy, after the copy was given another table: it must still interpolate ITS table
        src = Interpolation(list(xs), list(ys))
        cpy = Interpolation(src)
        cpy.set([100.0, 101.0, 103.0], [1.0, -4.0, 9.0])
        return src
    raise ValueError(form)


def _shift_poly(coefs, c):
    """coefficients of p(x - c)"""
    out = [Fraction(0)]
    for a in reversed(coefs):
        # out = out * (x - c) + a
        nxt = [Fraction(0)] * (len(out) + 1)
        for k, v in enumerate(out):
            nxt[k + 1] += v
            nxt[k] -= v * c
        nxt[0] += Fraction(a)
        out = nxt
    while len(out) > 1 and out[-1] == 0:
        out.pop()
    return out


def _cycle_tables(rng):
    """x^5 - 3x^3 + 6x is monotonic with its only root at 0, and Newton's iteration started at 1 alternates 1, -1, 1, ...
    exactly; tabulated at seven integers around the root (so the interpolant IS the polynomial) and searched on an interval
    whose midpoint is that starting point, every Newton step lands exactly on an end of the bracket"""
    base5 = [0, 6, 0, -3, 0, 1]
    for c in (0, 3, -5, 10):
        coefs = _shift_poly(base5, c)
        xq = [4 * (c + k) for k in range(-2, 5)]
        rng.shuffle(xq)
        ys = [float(_poly(coefs, Fraction(q, 4))[0]) for q in xq]
        for (a, b) in ((c - 1.5, c + 3.5), (c + 3.5, c - 1.5), (c - 3.5 + 2.0, c + 1.5 + 2.0 - 2.0)):
            r2 = random.Random("cycle/%s/%s" % (c, a))
            r2.special = (a, b)
            yield r2, list(xq), [q / 4.0 for q in xq], ys, coefs, rng.choice(["lists", "tuples", "set", "asked_then_set", "copy"])


def _tables(seed, shard, n):
    rng = random.Random("interp/%s/%s" % (seed, shard))
    if shard % 4 == 0:
        for t in _cycle_tables(rng):
            yield t
    for _ in range(n):
        npts = rng.randint(2, 9)
        kind = rng.random()
        if kind < 0.35:       # equally spaced
            h = rng.choice([1, 2, 4, 8, 3]) if npts <= 4 else rng.choice([1, 2])
            x0 = rng.randint(-40, 40) if npts <= 4 else rng.randint(-8, 0)
            xq = [x0 + h * j for j in range(npts)]
        else:                 # unequally spaced; narrower range for larger tables keeps values moderate
            half = 48 if npts <= 4 else (16 if npts <= 6 else 10)
            xq = rng.sample(range(-half, half + 1), npts)
        big = kind > 0.88 and npts <= 4
        if big:
            # an ephemeris-like table: abscissae of Julian-Day size (3-4 tabular instants a quarter day to two days apart)
            h = rng.choice([1, 2, 4, 8])
            x0 = 4 * rng.choice([2451545, 2448908, 1000000, 2460000]) + rng.randint(0, 3)
            xq = [x0 + h * j for j in range(max(3, npts))]
            npts = len(xq)
        rng.shuffle(xq)
        xs = [q / 4.0 for q in xq]
        coefs = None
        dk = rng.random()
        if big:
            ys = [10.0 * math.sin((q - x0) / 9.0) + 0.5 * (q - x0) - 1.0 for q in xq]
        elif dk < 0.6:
            deg = rng.randint(0, npts - 1)
            coefs = [Fraction(rng.randint(-12, 12), 4) for _ in range(deg + 1)]
            if deg >= 1 and coefs[-1] == 0:
                coefs[-1] = Fraction(1, 4)
            ys = [float(_poly(coefs, Fraction(q, 4))[0]) for q in xq]
        elif dk < 0.75:
            ys = [math.sin(x / 2.0) * 10 for x in xs]
        elif dk < 0.9:
            ys = [math.exp(x / 6.0) - 2.0 for x in xs]
        else:
            ys = [rng.uniform(-5, 5) for x in xs]
        form = rng.choice(["lists", "tuples", "flat", "set", "set_twice", "asked_then_set", "copy", "copy_reset"])
        if form == "flat" and npts < 2:
            form = "lists"
        yield rng, xq, xs, ys, coefs, form


def gen_interp(seed, shard, n):
    for rng, xq, xs, ys, coefs, form in _tables(seed, shard, n):
        base = {"xin": list(xq), "yin": [fx(v) for v in ys], "form": form, "np": len(xq),
                "ymax": fx(max(1.0, max(abs(v) for v in ys))), "xq": [], "ys": [], "hasp": 1 if coefs is not None else 0,
                "deg": (len(coefs) - 1) if coefs is not None else -1,
                "pc": [int(c * 4) for c in coefs] if coefs is not None else []}
        # occasionally a duplicated abscissa
        if rng.random() < 0.05:
            dq = list(xq)
            dq[rng.randrange(len(dq))] = dq[0] if len(dq) > 1 and dq[0] != dq[-1] else dq[-1]
            if len(set(dq)) < len(dq):
                ev = dict(base, k="tab", xin=dq, nodes=[])
                try:
                    _build(form, [q / 4.0 for q in dq], ys)
                    ev["oc"] = "ok"
                except Exception as ex:
                    ev["oc"] = _oc(ex)
                yield ev
        try:
            it = _build(form, xs, ys)
        except Exception as ex:
            yield dict(base, k="tab", oc=_oc(ex), nodes=[])
            continue
        hx = [int(round(v * 4)) for v in it._x]
        held = dict(base, xq=hx, ys=[fx(v) for v in it._y])
        try:
            nodes = [fx(it(v)) for v in it._x]
        except Exception:
            nodes = []
        yield dict(held, k="tab", oc="ok", nodes=nodes)
        xmin, xmax = min(xs), max(xs)
        # values and derivatives inside the table
        for _ in range(4):
            x = rng.choice([rng.uniform(xmin, xmax), rng.randint(int(xmin * 16), int(xmax * 16)) / 16.0,
                            xmin, xmax, (xmin + xmax) / 2.0,
                            # next to a tabulated abscissa, but not on it
                            rng.choice(xs) + rng.choice([1, -1]) * 10 ** rng.uniform(-9, -5)])
            if not (xmin <= x <= xmax):
                continue
            ev = dict(held, k="eval", x=fx(x), xf=x)
            try:
                ev["val"], ev["der"], ev["oc"] = fx(it(x)), fx(it.derivative(x)), "ok"
            except Exception as ex:
                ev["val"], ev["der"], ev["oc"] = BAD, BAD, _oc(ex)
            yield ev
        # outside the table
        for x in (xmin - rng.choice([0.25, 1e-6, 5.0]), xmax + rng.choice([0.25, 1e-6, 5.0])):
            ev = dict(held, k="out", xf=x)
            for key, f in (("ocv", it.__call__), ("ocd", it.derivative)):
                try:
                    f(x)
                    ev[key] = "ok"
                except Exception as ex:
                    ev[key] = _oc(ex)
            yield ev
        # roots and extrema on sub-intervals
        nodes_sorted = sorted(xs)
        cand = []
        for _ in range(6):
            a, b = rng.sample(nodes_sorted, 2) if len(nodes_sorted) > 2 else (xmin, xmax)
            r = rng.random()
            if r < 0.2:
                a -= rng.choice([0.5, 3.0])             # limit below / above the table
            elif r < 0.4:
                b = max(a, b) + rng.choice([0.5, 3.0])
            elif r < 0.6:
                a, b = a + rng.uniform(-0.2, 0.2), b + rng.uniform(-0.2, 0.2)
            if rng.random() < 0.3:
                a, b = b, a                              # reversed limits
            if a == 0 and b == 0:
                continue
            cand.append((a, b))
        cand.append((xmin, xmax))
        if getattr(rng, "special", None):
            cand = [rng.special]
        # the object's tolerance must be attainable in floating point for data of this size
        tol = max(1e-10, 1e-9 * max(abs(v) for v in ys))
        it.set_tolerance(tol)
        for (a, b) in cand:
            for kind, f, t in (("root", it.root, tol), ("minmax", it.minmax, 1e-10)):
                if kind == "minmax" and len(xs) < 3:
                    continue
                ev = dict(held, k=kind, site=kind, xl=fx(a), xh=fx(b), xlf=a, xhf=b, tol=fx(t), tight=0,
                          touch=_touching(coefs, kind, max(min(a, b), xmin), min(max(a, b), xmax)))
                if getattr(rng, "special", None) and kind == "root":
                    ev["touch"] = 0        # p' = 5x^4 - 9x^2 + 6 >= 1.95: provably no (nearly) double root (the heuristic is relative)
                try:
                    r = f(a, b)
                    ev["r"], ev["oc"], ev["rf"] = fx(r), "ok", r
                except Exception as ex:
                    ev["r"], ev["oc"] = BAD, _oc(ex)
                yield ev
        # a tightened tolerance (1e-12, attainable for data of size <= 50) and a search limit a hair beyond a simple root:
        # the value at the limit is below 1e-10 but above the object's tolerance - "vanishes to the OBJECT's tolerance"
        if coefs is not None and len(coefs) >= 2 and max(abs(v) for v in ys) <= 50.0 and len(xs) >= 3:
            fl = [float(c) for c in coefs]
            pf = lambda x: sum(c * x ** k for k, c in enumerate(fl))
            srt = sorted(xs)
            for lo_, hi_ in zip(srt, srt[1:]):
                if pf(lo_) * pf(hi_) < 0:
                    u, v = lo_, hi_
                    for _ in range(80):
                        mid = 0.5 * (u + v)
                        if pf(u) * pf(mid) <= 0:
                            v = mid
                        else:
                            u = mid
                    r0 = 0.5 * (u + v)
                    slope = abs(float(_poly(coefs, Fraction(r0))[1]))
                    if slope < 0.05 or slope > 1e3:
                        break
                    side = rng.choice([1, -1])
                    lim = r0 + side * rng.choice([3e-11, 5e-11, 8e-11]) / slope          # |p(lim)| = 3..8e-11
                    other = srt[0] if side > 0 else srt[-1]
                    if not (min(other, lim) < r0 < max(other, lim)) or abs(lim - min(srt, key=lambda z: abs(z - lim))) < 1e-3:
                        break
                    a, b = (other, lim) if rng.random() < 0.5 else (lim, other)
                    it.set_tolerance(1e-12)
                    ev = dict(held, k="root", site="root", xl=fx(a), xh=fx(b), xlf=a, xhf=b, tol=fx(1e-12), tight=1,
                              touch=_touching(coefs, "root", min(a, b), max(a, b)))
                    try:
                        r = it.root(a, b)
                        ev["r"], ev["oc"], ev["rf"] = fx(r), "ok", r
                    except Exception as ex:
                        ev["r"], ev["oc"] = BAD, _oc(ex)
                    yield ev
                    break


def gen_conj(seed, shard, n):
    """conjunction helpers on synthetic ephemerides whose RA/Dec differences are polynomials in n"""
    from pymeeus.Angle import Angle
    from pymeeus.Coordinates import planetary_conjunction, planet_star_conjunction
    rng = random.Random("conj/%s/%s" % (seed, shard))
    cnt = 0
    while cnt < n:
        half = rng.choice([1, 2, 3])
        entries = 2 * half + 1
        extra = rng.random() < 0.3                     # an even number of entries: the last one is dropped
        star = rng.random() < 0.4
        # RA difference: a line or parabola with exactly one sign change strictly inside (-half, half)
        root = rng.randint(-4 * half + 1, 4 * half - 1)          # quarter units
        slope = rng.choice([1, 2, 3, -1, -2, 5])
        curv = rng.choice([0, 0, 1, -1]) if half >= 1 else 0
        # pa(n) = (slope/4) (n - root/4) (1 + curv n / 16): keep the second factor positive on the table
        # expand in quarter units: coefficients of 1, n, n^2 times 4
        c0 = Fraction(-slope * root, 16)
        c1 = Fraction(slope, 4) - Fraction(slope * root * curv, 256)
        c2 = Fraction(slope * curv, 64)
        coefs_a = [c0, c1, c2]
        if any((c * 4).denominator != 1 for c in coefs_a):
            curv = 0
            coefs_a = [Fraction(-slope * root, 16) , Fraction(slope, 4), Fraction(0)]
        if any((c * 4).denominator != 1 for c in coefs_a):
            continue
        coefs_d = [Fraction(rng.randint(-20, 20), 4), Fraction(rng.randint(-4, 4), 4), Fraction(rng.randint(-2, 2), 4)]
        ns = list(range(-half, half + 1)) + ([half + 1] if extra else [])
        a2 = [100.0 + 0.5 * k for k in ns]
        d2 = [10.0 + 0.25 * k for k in ns]
        if star:
            a2 = [100.0 for _ in ns]
            d2 = [10.0 for _ in ns]
        a1 = [a2[i] + float(_poly(coefs_a, k)[0]) for i, k in enumerate(ns)]
        d1 = [d2[i] + float(_poly(coefs_d, k)[0]) for i, k in enumerate(ns)]
        A1, D1 = [Angle(v) for v in a1], [Angle(v) for v in d1]
        A2, D2 = [Angle(v) for v in a2], [Angle(v) for v in d2]
        ev = {"k": "conj", "half": half, "star": 1 if star else 0, "even": 1 if extra else 0,
              "pa": [int(c * 4) for c in coefs_a], "pd": [int(c * 4) for c in coefs_d],
              "form": "tuple" if cnt % 2 else "list", "xin": [], "deg": 2, "xlf": float(root) / 4, "xhf": float(slope)}
        try:
            if star:
                n0, dd = planet_star_conjunction(A1 if cnt % 2 == 0 else tuple(A1), D1 if cnt % 2 == 0 else tuple(D1), A2[0], D2[0])
            else:
                args = (A1, D1, A2, D2) if cnt % 2 == 0 else (tuple(A1), tuple(D1), tuple(A2), tuple(D2))
                n0, dd = planetary_conjunction(*args)
            ev["n0"], ev["dd"], ev["oc"] = fx(float(n0)), fx(float(dd)), "ok"
        except Exception as ex:
            ev["n0"], ev["dd"], ev["oc"] = BAD, BAD, _oc(ex)
        cnt += 1
        yield ev
        if cnt % 3 == 0:
            lev = _line_event(rng)
            if lev is not None:
                yield lev


def _straight(a1, d1, a2, d2, a3, d3):
    a1, d1, a2, d2, a3, d3 = [math.radians(v) for v in (a1, d1, a2, d2, a3, d3)]
    return math.tan(d1) * math.sin(a2 - a3) + math.tan(d2) * math.sin(a3 - a1) + math.tan(d3) * math.sin(a1 - a2)


def _line_event(rng):
    """planet_stars_in_line on a synthetic ephemeris: fast, slow and nearly stationary planets (daily motion down to
    0.03 degree with curvature), tables of 3 and 5 entries whose alignment function changes sign on the table"""
    from pymeeus.Angle import Angle
    from pymeeus.Coordinates import planet_stars_in_line
    for _ in range(40):
        half = rng.choice([1, 2])
        ns = list(range(-half, half + 1))
        v = rng.choice([1, -1]) * 10 ** rng.uniform(-1.5, 0.1)
        c = rng.choice([0.0, rng.uniform(-0.02, 0.02)])
        w = rng.uniform(-0.3, 0.3)
        a0, d0 = rng.uniform(20, 340), rng.uniform(-40, 40)
        t = rng.uniform(-0.8 * half, 0.8 * half)                 # alignment near this tabular time
        pa = lambda n: a0 + v * (n - t) + c * (n - t) ** 2
        pd = lambda n: d0 + w * (n - t)
        # two stars on a line through the planet's place at n = t, across its motion
        th = math.atan2(w, v * math.cos(math.radians(d0))) + math.pi / 2 + rng.uniform(-0.6, 0.6)
        s1, s2 = rng.uniform(1.0, 6.0), -rng.uniform(1.0, 6.0)
        st = [(a0 + s * math.cos(th) / math.cos(math.radians(d0)), d0 + s * math.sin(th)) for s in (s1, s2)]
        ys = [_straight(pa(n), pd(n), st[0][0], st[0][1], st[1][0], st[1][1]) for n in ns]
        if ys[0] * ys[-1] >= 0 or min(abs(ys[0]), abs(ys[-1])) < 1e-7:
            continue
        A1 = [Angle(pa(n)) for n in ns]
        D1 = [Angle(pd(n)) for n in ns]
        ev = {"k": "line", "half": half, "xq": [4 * n for n in ns], "ys": [fx(y) for y in ys], "vf": v, "cf": c,
              "scale": fx(max(abs(y) for y in ys))}
        try:
            n0 = planet_stars_in_line(A1, D1, Angle(st[0][0]), Angle(st[0][1]), Angle(st[1][0]), Angle(st[1][1]))
            ev["n0"], ev["oc"] = fx(float(n0)), "ok"
        except Exception as ex:
            ev["n0"], ev["oc"] = BAD, _oc(ex)
        return ev
    return None
