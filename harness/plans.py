"""Per-property check plans: which TLC model-checking runs and which
conformance traces (driver + trace specification) decide each property."""
import random
from core import MC, Shard
import drv_calendar

YMIN, YMAX = -4712, 6000


def _year_windows(tier, seed):
    if tier == "thorough":
        # the whole calendar, 64 contiguous ranges
        n = 64
        span = YMAX - YMIN + 1
        out = []
        for i in range(n):
            a = YMIN + (span * i) // n
            b = YMIN + (span * (i + 1)) // n - 1
            out.append((a, b))
        return out
    rng = random.Random(seed)
    fixed = [(-4712, -4650), (-4649, -4600), (-110, -1), (0, 110), (1480, 1560), (1561, 1640),
             (1641, 1720), (1890, 1999), (2000, 2110), (5900, 6000)]
    extra = []
    for _ in range(6):
        a = rng.randrange(-4500, 5800)
        extra.append((a, a + 59))
    return fixed + extra


def _cal_mc(windows):
    return [MC("MC_Calendar", "MC_Calendar.cfg", workers=1, heap="2g",
               env={"CAL_Y0": str(a), "CAL_Y1": str(b)}, note="civil days %d..%d" % (a, b))
            for (a, b) in windows]


def _nt_day(ev):
    # non-trivial days: month edges, leap days, Jan/Feb of century years, October 1582
    y, m, d = ev["y"], ev["m"], ev["d"]
    if d == 1 or d >= 28 or (y % 100 == 0 and m <= 3) or (y == 1582 and m == 10):
        return (y, m, d)
    return None


def plan_C01(tier, seed):
    w = _year_windows(tier, seed)
    return dict(
        mc=_cal_mc(w),
        shards=[Shard("c01_%+05d_%+05d" % (a, b), drv_calendar.gen_c01, dict(y0=a, y1=b),
                      "Trace_Calendar", "Trace.cfg") for (a, b) in w],
        level="model_checking", exhaustive=(tier == "thorough"),
        nontrivial=_nt_day,
        rule="TLC walks the civil-calendar chain (spec/Calendar.tla) over the year windows "
             "(thorough: every civil day -4712..6000) checking the Meeus recipes against the independent "
             "day counter; the driver builds Epoch(y,m,d) for every civil day of the same windows with "
             "the month as number, short and long name, reads the date back, tries day+1 and day 0, and "
             "Trace_Calendar judges every event against the chain. Every day is a distinct case; "
             "non-trivial = first/last days of months, leap days, Jan-Mar of century years, October 1582 "
             "(distinct within a shard; shards partition the years).",
        assumptions=["float jde() values of 0h/12h dates are exact half-integers (checked: a non-integral "
                     "2*jde is reported as a violation)",
                     "days 5..14 October 1582 are not civil dates; the property and the spec say nothing about them"])


def plan_C16(tier, seed):
    w = _year_windows(tier, seed)
    return dict(
        mc=_cal_mc(w),
        shards=[Shard("c16_%+05d_%+05d" % (a, b), drv_calendar.gen_c16, dict(y0=a, y1=b),
                      "Trace_Calendar", "Trace.cfg") for (a, b) in w],
        level="model_checking", exhaustive=(tier == "thorough"),
        nontrivial=_nt_day,
        rule="calendar chain as for C01 (dow, doy counters, Gregorian weekday formula, year length "
             "invariants model-checked); per civil day the driver logs dow() at 0h/12h/23:59:59, doy(), "
             "get_doy, doy2date, leap(), year() at three instants; Trace_Calendar compares with the chain "
             "and checks the fractional year is strictly increasing with integer part = year. "
             "Non-trivial days as for C01.",
        assumptions=["31 December 1582 has day-of-year 355 (JDE difference to 1 January plus one)"])


PLANS = {"C01": plan_C01, "C16": plan_C16}
