"""Per-property check plans: which TLC model-checking runs and which
conformance traces (driver + trace specification) decide each property."""
import json
import random
from core import MC, Shard, Apa
import drv_calendar
import drv_computus
import drv_leap
import drv_angle
import drv_heap
import drv_epoch
import drv_curvefit
import drv_interp
import drv_finders
import drv_moon
import drv_sun
import drv_orbit
import drv_kepler
import drv_earth
import drv_sphere
import drv_precession
import drv_sunearth
import drv_geocentric
import drv_api
import drv_growth
import drv_tableheap

YMIN, YMAX = -4712, 6000


def _year_windows(tier, seed):
    if tier == "thorough":
        # the whole calendar, 64 contiguous ranges
        n = 64
        span = YMAX - YMIN + 1
        out = []
        for i in range(n):
            a = YMIN + (span * i) // n
            b = YMIN + (span * (i + 1)) // n - 1
            out.append((a, b))
        return out
    rng = random.Random(seed)
    fixed = [(-4712, -4650), (-4649, -4600), (-110, -1), (0, 110), (1480, 1560), (1561, 1640),
             (1641, 1720), (1890, 1999), (2000, 2110), (5900, 6000)]
    extra = []
    for _ in range(6):
        a = rng.randrange(-4500, 5800)
        extra.append((a, a + 59))
    return fixed + extra


def _cal_apa(tier, which):
    """symbolic complement of the chain walk: the inductive invariant of Apa_Calendar for every year >= -4712"""
    A = [Apa("Apa_Calendar", "Init", "IndInv", 0, note="base: the first civil day (-4712-01-01, JDN 0, Monday) satisfies IndInv"),
         Apa("Apa_Calendar", "IndInit", "IndInv", 1, note="step: NextDay preserves IndInv from ANY state satisfying it (years unbounded above)")]
    if tier == "thorough":
        cons = {"C01": ["Fwd", "Jan1Closed", "YearEnd"], "C16": ["GregorianDow", "LeapRule", "YearEnd"]}[which]
        A += [Apa("Apa_Calendar", "IndInit", inv, 0, note="IndInv implies %s for every year >= -4712" % inv) for inv in cons]
    return A


def _cal_mc(windows):
    return [MC("MC_Calendar", "MC_Calendar.cfg", workers=1, heap="2g",
               env={"CAL_Y0": str(a), "CAL_Y1": str(b)}, note="civil days %d..%d" % (a, b))
            for (a, b) in windows]


def _nt_day(ev):
    if ev["k"] == "sid":
        return ev["x"]
    # non-trivial days: month edges, leap days, Jan/Feb of century years, October 1582
    y, m, d = ev["y"], ev["m"], ev["d"]
    if d == 1 or d >= 28 or (y % 100 == 0 and m <= 3) or (y == 1582 and m == 10):
        return (y, m, d)
    return None


def plan_C01(tier, seed):
    w = _year_windows(tier, seed)
    return dict(
        mc=_cal_mc(w) + _cal_apa(tier, "C01"),
        shards=[Shard("c01_%+05d_%+05d" % (a, b), drv_calendar.gen_c01, dict(y0=a, y1=b),
                      "Trace_Calendar", "Trace.cfg") for (a, b) in w],
        level="model_checking", exhaustive=(tier == "thorough"),
        nontrivial=_nt_day,
        rule="TLC walks the civil-calendar chain (spec/Calendar.tla) over the year windows "
             "(thorough: every civil day -4712..6000) checking the Meeus recipes against the independent "
             "day counter; the driver builds Epoch(y,m,d) for every civil day of the same windows with "
             "the month as number, short and long name, reads the date back, tries day+1 and day 0, and "
             "Trace_Calendar judges every event against the chain. Every day is a distinct case; "
             "non-trivial = first/last days of months, leap days, Jan-Mar of century years, October 1582 "
             "(distinct within a shard; shards partition the years).",
        assumptions=["float jde() values of 0h/12h dates are exact half-integers (checked: a non-integral "
                     "2*jde is reported as a violation)",
                     "days 5..14 October 1582 are not civil dates; the property and the spec say nothing about them"])


def plan_C16(tier, seed):
    w = _year_windows(tier, seed)
    nsid = 16
    per = 400 if tier == "quick" else 6500
    return dict(
        mc=_cal_mc(w) + _cal_apa(tier, "C16"),
        shards=[Shard("c16_%+05d_%+05d" % (a, b), drv_calendar.gen_c16, dict(y0=a, y1=b),
                      "Trace_Calendar", "Trace.cfg") for (a, b) in w]
               + [Shard("sid_%02d" % i, drv_calendar.gen_sidereal, dict(seed=seed, n=per, shard=i, nshards=nsid),
                        "Trace_Sidereal", "Trace.cfg") for i in range(nsid)],
        level="model_checking", exhaustive=(tier == "thorough"),
        nontrivial=_nt_day,
        rule="calendar chain as for C01 (dow, doy counters, Gregorian weekday formula, year length "
             "invariants model-checked); per civil day the driver logs dow() at 0h/12h/23:59:59, doy(), "
             "get_doy, doy2date, leap(), year() at three instants; Trace_Calendar compares with the chain "
             "and checks the fractional year is strictly increasing with integer part = year. "
             "Non-trivial days as for C01. Sidereal time: JDE in [0, 5.4e6] at day/half-day boundaries with "
             "+-1,2 ulp, +-1 us, +-1 s offsets plus uniform random; Trace_Sidereal evaluates the IAU-1982 "
             "polynomial in exact fixed point and compares (1e-7 day), checks the daily advance and the "
             "equation of the equinoxes identity (each distinct JDE is a case).",
        assumptions=["31 December 1582 has day-of-year 355 (JDE difference to 1 January plus one)"])


def _split(a, b, n):
    span = b - a + 1
    return [(a + (span * i) // n, a + (span * (i + 1)) // n - 1) for i in range(n)]


def _nt_c19(ev):
    k = ev["k"]
    if k in ("easter", "pesach"):
        return (k, ev["y"])
    if k == "m2g":     # month edges and year edges of the Moslem calendar
        return (k, ev["hy"], ev["hm"], ev["hd"]) if ev["hd"] in (1, 29, 30) else None
    return (k, ev["y"], ev["m"], ev["d"]) if (ev["d"] == 1 or ev["d"] >= 28) else None


def _computus_apa(tier):
    """symbolic complement (Apalache, unbounded years): Islamic arithmetic calendar by induction, tabular Easter range/Sunday"""
    A = [Apa("Apa_Computus", "IslBase", "IslInd", 0, note="1 Muharram AH 1 satisfies the closed form"),
         Apa("Apa_Computus", "IslIndInit", "IslInd", 1, note="IslNext preserves jdn = IslJDN(y, m, d) from any valid date of any year >= 1 AH"),
         Apa("Apa_Computus", "EasterInit", "EasterRange", 0, note="tabular Easter lies in 22 March..25 April for every year >= -4712")]
    if tier == "thorough":
        A += [Apa("Apa_Computus", "IslIndInit", "IslCycle", 0, note="30 Islamic years = 10631 days, every year"),
              Apa("Apa_Computus", "IslIndInit", "IslYearLen", 0, note="consecutive new years are 354 / 355 days apart, every year"),
              Apa("Apa_Computus", "EasterGregInit", "EasterSunday", 0, note="tabular Gregorian Easter is a Sunday for every year >= 1583")]
    return A


def plan_C19(tier, seed):
    rng = random.Random(seed)
    mc = [MC("MC_Computus", "MC_Computus.cfg", workers=4, heap="2g",
             env={"CMP_MODE": "easter", "CMP_Y0": "288", "CMP_Y1": "15000"}, note="Easter, every year -4712..10000"),
          MC("MC_Computus", "MC_Computus.cfg", workers=4, heap="2g",
             env={"CMP_MODE": "hebrew", "CMP_Y0": "1", "CMP_Y1": "3000"}, note="Hebrew calendar, civil years 1..3000")]
    mc += [MC("MC_Computus", "MC_Computus.cfg", workers=1, heap="2g",
              env={"CMP_MODE": "islamic", "CMP_Y0": str(a), "CMP_Y1": str(b)}, note="Islamic day chain AH %d..%d" % (a, b))
           for (a, b) in _split(1, 2500, 12)]
    T = ("Trace_Computus", "Trace.cfg")
    sh = [Shard("easter_a", drv_computus.gen_easter, dict(y0=-4712, y1=2600), *T),
          Shard("easter_b", drv_computus.gen_easter, dict(y0=2601, y1=10000), *T),
          Shard("pesach", drv_computus.gen_pesach, dict(y0=1, y1=3000), *T)]
    if tier == "thorough":
        hw = _split(1, 2500, 24)
        cw = [(622, 700)] + _split(701, 3000, 23)
    else:
        hw = [(1, 60), (540, 560), (780, 800), (960, 1020), (1100, 1130), (1300, 1360), (1400, 1460), (2460, 2500)]
        cw = [(622, 680), (1480, 1530), (1560, 1620), (1690, 1710), (1890, 1920), (1990, 2040), (2960, 3000)]
        for _ in range(3):
            a = rng.randrange(61, 2400)
            hw.append((a, a + 29))
            a = rng.randrange(700, 2900)
            cw.append((a, a + 29))
    sh += [Shard("m2g_%04d_%04d" % (a, b), drv_computus.gen_m2g, dict(h0=a, h1=b), *T) for (a, b) in hw]
    sh += [Shard("g2m_%04d_%04d" % (a, b), drv_computus.gen_g2m, dict(y0=a, y1=b), *T) for (a, b) in cw]
    return dict(
        mc=mc + _computus_apa(tier), shards=sh, level="model_checking", exhaustive=(tier == "thorough"), nontrivial=_nt_c19,
        rule="TLC checks the tabular-epact Easter definition against the Meeus recipe for every year -4712..10000, the "
             "arithmetic Hebrew calendar laws for civil years 1..3000 and the Islamic day chain AH 1..2500 against its closed "
             "forms (with published anchors). Conformance: Epoch.easter for every year -4712..10000 and jewish_pesach for "
             "1..3000 (always exhaustive); moslem2gregorian for every date of the AH windows and gregorian2moslem for every "
             "civil day of the year windows (thorough: AH 1..2500 and 622-07-16..3000 completely), each judged by "
             "Trace_Computus against the chains. Non-trivial: each Easter/Pesach year; month/year edges of both calendars.",
        assumptions=["Islamic leap years are 2,5,7,10,13,16,18,21,24,26,29 of the 30-year cycle (the variant Meeus uses), epoch JDN 1948440",
                     "known/C19_g2m_inputs.json lists the exact civil dates on which gregorian2moslem is known to fail (see KNOWN_FINDINGS.txt)"])


def _nt_c10(ev):
    k = ev["k"]
    if k == "utc":
        return (k, ev["y"], ev["m"], ev["d"], ev["h"])
    if k == "ovr":
        return (k, ev["y"], ev["m"], ev["kk"])
    return (k, ev["y"], ev["m"])


def plan_C10(tier, seed):
    T = ("Trace_Leap", "Trace.cfg")
    times = drv_leap.TIMES if tier == "quick" else [(h, (7 * h) % 60, (11 * h) % 60) for h in range(24)] + [(23, 59, 59), (0, 0, 0)]
    nsh = 12 if tier == "quick" else 30
    sh = [Shard("ls", drv_leap.gen_ls, dict(y0=1950, y1=2100), *T)]
    sh += [Shard("utc_%d" % a, drv_leap.gen_utc, dict(y0=a, y1=b, times=times), *T) for (a, b) in _split(1950, 2100, nsh)]
    ks = list(range(0, 61))
    yr = (1968, 2024) if tier == "quick" else (1950, 2100)
    sh += [Shard("ovr_%d" % a, drv_leap.gen_ovr, dict(y0=a, y1=b, ks=ks), *T) for (a, b) in _split(yr[0], yr[1], nsh)]
    sh += [Shard("dt", drv_leap.gen_dt, dict(y0=-2000, y1=3000), *T)]
    return dict(
        mc=[MC("MC_Leap", "MC_Leap.cfg", workers=4, heap="2g", note="every (year, month) 1950..2100")],
        shards=sh, level="model_checking", exhaustive=True, nontrivial=_nt_c10,
        rule="TLC checks the IERS step function for every (year, month) 1950..2100 (monotone, steps only in Jan/Jul, equals the "
             "27-entry list, constant after 2017-01, lookup transcription refines it). Conformance: leap_seconds(y, m) for every "
             "month 1950..2100; Epoch(..., utc=True) vs Epoch(...) and the utc read-back for every month x days 1/15/last x "
             "times (quick: 0h, 12h, 23:59:59; thorough: 26 times of day); leap_seconds overrides 0..60; tt2ut for every "
             "month -2000..3000 in order (joint jumps, 3.5 s band). All offsets are computed by TLC in exact fixed point from "
             "the logged JDEs. Each (month, day, time) / (month, override) is a distinct case.",
        assumptions=["'exactly' is decided at the float resolution of a JDE difference: 0.1 ms",
                     "JDNOf/civil calendar from Calendar.tla (model-checked in C01)"])


def _nt_sexa(ev):
    return (ev["k"], ev["x"], ev["ra"], ev.get("fancy"), ev.get("nd"))


def plan_C04(tier, seed):
    T = ("Trace_Sexa", "Trace.cfg")
    nsh, per = (16, 250) if tier == "quick" else (64, 1500)
    sh = [Shard("sexa_%02d" % i, drv_angle.gen_sexa, dict(seed=seed, n=per, shard=i), *T) for i in range(nsh)]
    sh += [Shard("ties_%02d" % i, drv_angle.gen_sexa_ties, dict(seed=seed, n=per * 4, shard=i), *T) for i in range(nsh // 8)]
    degs = [0, 1, 59, 179, 180, 358, 359]
    offs = list(range(-25, 26)) if tier == "thorough" else [-6, -5, -4, -1, 0, 1, 4, 5, 6]
    for n in (0, 1, 2):
        for d in degs:
            sh.append(Shard("grid_n%d_d%03d" % (n, d), drv_angle.gen_sexa_grid, dict(n=n, degs=[d], offs=offs), *T))
    return dict(
        mc=[MC("MC_Sexa", "MC_Sexa.cfg", workers=8, heap="3g", note="integer carry model of dms_str over all carry windows, n=0..2"),
            Apa("Apa_Sexa", "AnyValue", "PrintLaw", 0, note="the carry model meets the print law for EVERY value below one turn, n = 0..3 (symbolic)")],
        shards=sh, level="model_checking", exhaustive=False, nontrivial=_nt_sexa,
        rule="TLC checks the integer carry model of dms_str on every value within +-25 fine units of every whole minute of 7 "
             "degrees x 5 seconds values, n_dec 0..2 (321,300 states): no 60, half-unit read-back; Apalache proves the same law "
             "for every value below one turn and n_dec 0..3. Conformance: (a) the same "
             "grid values are printed by the real Angle.dms_str (both styles) and judged; (b) seeded values in (-360,360) "
             "concentrated within 1e-12, 1-3 ulp and 0.4/0.5/0.6 last-decimal units of whole seconds/minutes/degrees (hours for "
             "RA), of 0 and +-360, plus denormals and uniform random; (c) values below one degree / hour whose seconds lie 1.5e-11 .. 1e-7 arcsec either side of a rounding tie of the requested decimal, judged with a slack of 7e-12 arcsec (single rounding): dms_tuple, ra_tuple, dms_str, ra_str x fancy/colon x "
             "n_dec in {-1,0,1,2,3,4,6,9,12}. The printed string is tokenised as text; recombination, range, sign and "
             "half-unit read-back modulo 360/24 are evaluated by TLC in exact fixed point. Distinct case = (value, ra, style, n_dec).",
        assumptions=["the printed degree/hour field may show a full turn (24h) after a rounding carry: the statement only asks "
                     "for read-back modulo 24 h, so only the tuple form is required to stay below 24"])


def _nt_c03(ev):
    k = ev["k"]
    if k == "new":
        return (k, ev["form"], ev.get("via"), str(ev.get("inp")))
    if k == "op":
        return (k, ev["op"], ev["bk"], ev["xf"], ev["yf"], ev["n"])
    if k in ("pos", "view"):
        return (k, ev["xf"])
    if k == "tinydiv":
        return (k, ev["op"], ev["xf"], ev["yf"])
    if k == "step":
        o = ev["o"]
        return (k, o["t"], o["op"], o["dst"], o["l"], o["r"], o["k"], tuple(ev["sh"]))
    return None


def _heap_shards(kind, tier, seed, parts):
    cfg = "Trace_ObjHeap_%s.cfg" % kind
    sh = [Shard("heap_%s_d2_%02d" % (kind, i), drv_heap.gen_heap,
                dict(kind=kind, depth=2, simulate=0, seed=0, part=i, parts=parts), "Trace_ObjHeap", cfg)
          for i in range(parts)]
    nsim, dsim = (600, 6) if tier == "quick" else (12000, 8)
    sp = 2 if tier == "quick" else 8
    sh += [Shard("heap_%s_sim_%02d" % (kind, i), drv_heap.gen_heap,
                 dict(kind=kind, depth=dsim, simulate=nsim, seed=seed, part=i, parts=sp), "Trace_ObjHeap", cfg)
           for i in range(sp)]
    return sh


def _table_shards(kind, tier, seed):
    cfg = "Trace_TableHeap_%s.cfg" % kind
    d, parts = (2, 2) if tier == "quick" else (3, 8)
    sh = [Shard("tab_%s_d%d_%02d" % (kind, d, i), drv_tableheap.gen_tableheap,
                dict(kind=kind, depth=d, simulate=0, seed=0, part=i, parts=parts), "Trace_TableHeap", cfg) for i in range(parts)]
    nsim, dsim, sp = (400, 6, 1) if tier == "quick" else (6000, 8, 4)
    sh += [Shard("tab_%s_sim_%02d" % (kind, i), drv_tableheap.gen_tableheap,
                 dict(kind=kind, depth=dsim, simulate=nsim, seed=seed, part=i, parts=sp), "Trace_TableHeap", cfg) for i in range(sp)]
    return sh


def _table_mc(kind, tier):
    return MC("MC_TableHeap", "MC_TableHeap_%s.cfg" % kind, workers=1, heap="2g", env={"HEAP_DEPTH": "2" if tier == "quick" else "3"},
              note="table-object heap (%s): every operation sequence up to the depth; copies fresh, set/settol in place, queries pure" % kind)


def plan_C03(tier, seed):
    T = ("Trace_Angle", "Trace.cfg")
    nsh, pn, po = (6, 400, 2500) if tier == "quick" else (16, 8000, 60000)
    sh = [Shard("new_%02d" % i, drv_angle.gen_new, dict(seed=seed, n=pn, shard=i), *T) for i in range(nsh)]
    sh += [Shard("ops_%02d" % i, drv_angle.gen_ops, dict(seed=seed, n=po, shard=i), *T) for i in range(nsh)]
    sh += _heap_shards("angle", tier, seed, 6)
    return dict(
        mc=[MC("MC_Angle", "MC_Angle.cfg", workers=4, heap="2g", note="value algebra laws on a dyadic grid"),
            MC("MC_ObjHeap", "MC_ObjHeap_angle.cfg", workers=1, heap="3g", env={"HEAP_DEPTH": "2"},
               note="all heap operation sequences of depth 2 (frame laws as action properties)")],
        shards=sh, level="model_checking", exhaustive=False, nontrivial=_nt_c03,
        rule="TLC checks the Angle value algebra (Reduce range/sign/idempotence/congruence, operator compatibility, ToPositive, "
             "sign-preserving modulo) on a dyadic grid and the heap model (operators allocate, in-place forms rebind, only "
             "documented mutators change an object) for every operation sequence of depth 2. Conformance: (a) every one of those "
             "TLC behaviours, plus -simulate behaviours of depth 6-8, is executed on real Angle objects and each step validated "
             "against ObjHeap (values behind every name, copy independence); (b) constructors from floats/ints up to 1e15 "
             "(multiples of 360, +-ulp neighbours, denormals), radians, RA hours, sexagesimal pieces in args/tuple/list forms with "
             "signs on any piece; all 20 operators x operand kinds Angle/int/float incl. zero divisors; to_positive; rad/RA views. "
             "Exact results are computed by TLC in fixed point (quotients through verified witnesses). Distinct case = distinct "
             "input tuple / operation record.",
        assumptions=["% is specified for positive moduli as the sign-preserving remainder the class documents",
                     "pow is specified for integer exponents 0..4; division by an Angle smaller than 1e-9 is unspecified",
                     "radian inputs: exact degrees computed with a 50-digit pi (representational)"])


def _nt_c02(ev):
    k = ev["k"]
    if k == "rt":
        return (k, ev["xf"])
    if k == "forms":
        return (k, ev["y"], ev["m"], ev["d"], ev["h"], ev["mi"], ev["sf"])
    if k == "arith":
        return (k, ev["xf"], ev["of"])
    if k == "cmp":
        return (k, ev["x1f"], ev["x2f"], ev["num"])
    if k == "step":
        o = ev["o"]
        return (k, o["t"], o["op"], o["dst"], o["l"], o["r"], o["k"], tuple(ev["sh"]))
    return None


def plan_C02(tier, seed):
    T = ("Trace_Epoch", "Trace.cfg")
    if tier == "quick":
        nsh, nb, nr, nf, na, nc = 8, 250, 2500, 600, 3000, 1800
    else:
        nsh, nb, nr, nf, na, nc = 32, 1250, 31000, 6000, 40000, 1800
    sh = [Shard("rt_%02d" % i, drv_epoch.gen_rt, dict(seed=seed, shard=i, nb=nb, nr=nr), *T) for i in range(nsh)]
    sh += [Shard("forms_%02d" % i, drv_epoch.gen_forms, dict(seed=seed, shard=i, n=nf), *T) for i in range(max(2, nsh // 4))]
    sh += [Shard("arith_%02d" % i, drv_epoch.gen_arith, dict(seed=seed, shard=i, n=na), *T) for i in range(max(2, nsh // 4))]
    sh += [Shard("cmp_%02d" % i, drv_epoch.gen_cmp, dict(seed=seed, shard=i, n=nc), *T) for i in range(2)]
    sh += _heap_shards("epoch", tier, seed, 2)
    return dict(
        mc=[MC("MC_ObjHeap", "MC_ObjHeap_epoch.cfg", workers=1, heap="3g", env={"HEAP_DEPTH": "2"},
               note="Epoch heap: all operation sequences of depth 2 (frame laws)"),
            MC("MC_Calendar", "MC_Calendar.cfg", workers=1, heap="2g", env={"CAL_Y0": "1570", "CAL_Y1": "1600"},
               note="calendar chain around the reform (JDNOf closed forms used by Recompose)")],
        shards=sh, level="model_checking", exhaustive=False, nontrivial=_nt_c02,
        rule="Sorted JDE sweeps in [0, 5.4e6]: per shard nb boundaries (civil midnights, month/year/century starts, the 1582 "
             "reform) x offsets {0, +-1us, +-1ms, +-1s, +-1min, +12h, +-1e-9, +-1,2 ulp} plus nr uniform random JDEs; each "
             "instant goes Epoch(x) -> get_full_date -> Epoch(fields); TLC recomposes the fields on the calendar chain's day "
             "number in exact fixed point (1e-8 day), checks canonical ranges and that the date tuple never decreases along "
             "the sorted trace. Input forms: 13-15 documented ways of giving one instant must agree to 1e-9 day. Arithmetic: "
             "offsets up to 1e6 days (ints, dyadics, random); comparisons on all ordered pairs of a 30-Epoch pool (Epoch and "
             "number right-hand sides). Heap behaviours generated by TLC (depth 2 exhaustive + simulate) are replayed on real "
             "Epoch objects. Distinct case = distinct JDE / date / (JDE, offset) / pair / operation record.",
        assumptions=["== and != are checked on pairs that are identical or more than 1e-6 day apart (the class compares with a 1e-10 tolerance)"])


def _nt_c17(ev):
    return (ev["k"], ev["basis"], ev["form"], tuple(ev.get("xf", ())), tuple(ev.get("yf", ())))


def plan_C17(tier, seed):
    T = ("Trace_CurveFit", "Trace.cfg")
    if tier == "quick":
        nsh, per, grid = 16, 220, [(3, 1, 2, 8)]
        mcs = [MC("MC_CurveFit", "MC_CurveFit.cfg", workers=4, heap="2g", env={"CF_NP": "3", "CF_LO": "1", "CF_HI": "2"},
                  note="all 3-point data sets, x,y in -1..2")]
    else:
        nsh, per, grid = 48, 1500, [(3, 2, 2, 16), (4, 1, 1, 8)]
        mcs = [MC("MC_CurveFit", "MC_CurveFit.cfg", workers=4, heap="2g", env={"CF_NP": "3", "CF_LO": "2", "CF_HI": "2"},
                  note="all 3-point data sets, x,y in -2..2"),
               MC("MC_CurveFit", "MC_CurveFit.cfg", workers=4, heap="2g", env={"CF_NP": "4", "CF_LO": "1", "CF_HI": "1"},
                  note="all 4-point data sets, x,y in -1..1")]
    sh = [Shard("fit_%02d" % i, drv_curvefit.gen_fit, dict(seed=seed, shard=i, n=per), *T) for i in range(nsh)]
    for (np_, lo, hi, parts) in grid:
        sh += [Shard("grid%d_%02d" % (np_, i), drv_curvefit.gen_grid, dict(np_=np_, lo=lo, hi=hi, part=i, parts=parts), *T)
               for i in range(parts)]
    return dict(
        mc=mcs, shards=sh, level="model_checking", exhaustive=False, nontrivial=_nt_c17, mc_timeout=2400,
        rule="TLC checks, on every small integer data set, that the Cramer formulas solve the normal equations, that the "
             "determinant vanishes exactly on degenerate data and Cauchy-Schwarz with equality iff collinear; every one of those "
             "data sets is then run through the real class (linear, quadratic, correlation). Seeded data sets of 2-200 points on "
             "a 1/4 grid (spread, small, clustered, equally spaced, degenerate; noiseless line/parabola, constant, noisy), "
             "shuffled and supplied as lists/tuples/flat arguments/set()/copy: TLC recomputes sums and determinants exactly in "
             "fixed point and compares the returned coefficients cross-multiplied (relative 1e-6) when the exact conditioning "
             "predicate holds; general_fitting with (x^2,x,1), (x,1) and trigonometric/exponential bases (residual "
             "orthogonality on witness basis values, Gram-conditioned). Distinct case = (call, basis, form, data).",
        assumptions=["'well-conditioned' is decided exactly by the spec: |det| >= 1e-7 of the sum of its cancelling terms",
                     "correlation coefficient may exceed 1 in magnitude by at most 1e-12 (one float ulp is not reported)"])


def _nt_c12(ev):
    k = ev["k"]
    if k == "conj":
        return (k, ev["half"], ev["star"], ev["even"], tuple(ev["pa"]), tuple(ev["pd"]), ev["form"])
    if k == "line":
        return (k, ev["half"], ev["vf"], ev["cf"])
    key = (k, ev["form"], tuple(ev["xin"]), ev["deg"])
    if k == "eval":
        return key + (ev["xf"],)
    if k in ("root", "minmax"):
        return key + (ev["xlf"], ev["xhf"])
    if k == "out":
        return key + (ev["xf"],)
    return key


def plan_C12(tier, seed):
    T = ("Trace_Interp", "Trace.cfg")
    nsh, per = (16, 110) if tier == "quick" else (48, 1200)
    sh = [Shard("itp_%02d" % i, drv_interp.gen_interp, dict(seed=seed, shard=i, n=per), *T) for i in range(nsh)]
    sh += [Shard("conj_%02d" % i, drv_interp.gen_conj, dict(seed=seed, shard=i, n=400 if tier == "quick" else 5000), *T)
           for i in range(2 if tier == "quick" else 8)]
    return dict(
        mc=[MC("MC_InterpClamp", "MC_InterpClamp.cfg", workers=4, heap="2g",
               note="effective search interval law on a grid of limits vs table ends")],
        shards=sh, level="model_checking", exhaustive=False, nontrivial=_nt_c12,
        rule="Tables of 2-9 points with distinct quarter-grid abscissae in shuffled order (equally/unequally spaced), ordinates from "
             "a polynomial of degree < n with quarter-grid coefficients (60%), sin/exp/random otherwise; input forms lists, tuples, "
             "flat arguments, set(), set() on a used object, copy. TLC checks: table held ascending and equal to the supplied "
             "points, node values, duplicated abscissae and out-of-table arguments refused; value and derivative against the "
             "generating polynomial evaluated by the spec (1e-9 relative), against the spec's own Newton form for small tables; "
             "root/minmax on sub-intervals incl. reversed and out-of-table limits: whenever the exact polynomial (or, for smooth "
             "data, the table itself at node limits) changes sign on the clipped interval the call must return a point inside it "
             "at which the exact polynomial / derivative is within the object's tolerance. Distinct case = (call, form, table, arguments).",
        assumptions=["the object's tolerance is set to max(1e-10, 1e-9*max|y|) before root searches so that it is attainable in floating point",
                     "extremum clauses are asserted for max|y| <= 1000 (minmax uses a fixed 1e-10 tolerance on the derivative)",
                     "for smooth (non-polynomial) data only the interval clause is asserted, with limits at nodes"])


def _nt_c13(ev):
    if ev["k"] == "q":
        return (ev["f"], ev["v"], round(ev["rf"], 3)) if ev["oc"] == "ok" else (ev["f"], ev["v"], "refused", ev["y"])
    return (ev["f"], ev["v"], "ev", round(ev["rf"], 3))


def plan_C13(tier, seed):
    T = ("Trace_Finders", "Trace.cfg")
    fl = drv_finders.finder_list()
    eras, per_era, nev, ngroups = (3, 12, 6, 28) if tier == "quick" else (40, 25, 120, 56)
    groups = [fl[i::ngroups] for i in range(ngroups)]
    sh = [Shard("grp_%02d" % i, drv_finders.gen_group,
                dict(items=g, seed=seed, eras=eras, per_era=per_era, edge=True, nev=nev), *T)
          for i, g in enumerate(groups) if g]
    # whole windows in which EVERY event is asked for and judged (thorough: the whole of -2000..4000, every event of every
    # finder; Mercury's 19,000 synodic / 25,000 orbital events: all asked for, every fourth judged)
    J0, J1 = drv_finders.J_M2000, drv_finders.J_4000
    rng = random.Random("c13all/%s" % seed)
    for (pl, fn, v) in fl:
        P = drv_finders.SYN[pl] if fn in drv_finders.SYNF else drv_finders.ORB[pl]
        cost = 0.09 if fn in drv_finders.SYNF else 0.02
        if tier == "quick":
            if rng.random() < 0.75:
                continue
            a = J0 + rng.random() * (J1 - J0 - 12 * P)
            wins, stride = [(a, a + 10 * P)], (4 if pl == "Mercury" else 1)
        else:
            stride = 4 if pl == "Mercury" else 1
            nchunk = max(1, int((J1 - J0) / P * cost / stride / 100.0 + 0.5))
            wins = [(J0 + (J1 - J0) * i / nchunk, J0 + (J1 - J0) * (i + 1) / nchunk) for i in range(nchunk)]
        for wi, (a, b) in enumerate(wins):
            sh.append(Shard("all_%s_%s_%d_%02d" % (pl[:3], fn, v, wi), drv_finders.gen_all,
                            dict(planet=pl, fn=fn, variant=v, seed=seed, window=[a, b], stride=stride), *T))
    return dict(
        mc=[MC("MC_Finder", "MC_Finder.cfg", workers=4, heap="2g", note="abstract nearest-event finder: protocol laws hold for every query sequence on a grid")],
        shards=sh, level="model_checking", exhaustive=False, nontrivial=_nt_c13,
        rule="All 56 finder variants the library offers (8 synodic kinds x planets, perihelion/aphelion, ascending/descending node). "
             "Per variant: queries at 1/20-period steps plus random ones over `eras` windows of `per_era` periods spread across "
             "-2000..4000 (sorted), and +-2 periods around both ends of the validity range; TLC checks along each trace: never "
             "backwards, consecutive distinct results one period apart within the period's natural variation, result within one "
             "period of the query, ValueError outside -2000..4000, totality inside. Event reality: for sampled events the "
             "library's own VSOP87 positions at r, r+-tol, r+-2tol (tol = 1 d Mercury-Mars, 2 d beyond) must show the defining "
             "sign change / extremum inside the stencil, the reported elongation within 0.1 deg, inferior vs superior, east vs west; "
             "sharp form for extremum kinds: the slope (short central difference) changes sign between r - tol and r + tol. "
             "Whole windows in which EVERY event is asked for at half-period steps and judged: quick 10 periods for a quarter "
             "of the variants, thorough all of -2000..4000 for every variant (Mercury: every fourth event judged). "
             "Distinct case = distinct returned event (or refused query year) per finder variant.",
        assumptions=["period constants and admissible gap ratios are constants of Finders.tla (Meeus' mean periods; ratio bounds = twice the "
                     "variation observed on the pinned tree, at least 1 %): a skipped event doubles a gap",
                     "years -2000 and 4000 themselves are treated as unspecified edge years for the range clause",
                     "Earth.passage_nodes has no event-reality clause: the Earth's heliocentric latitude of date is identically ~0"])


def _nt_c15(ev):
    if ev["k"] == "pos":
        return ("pos", ev["tf"])
    if ev["k"] == "q":
        return (ev["f"], ev["tg"], round(ev["rf"], 3), ev["oc"])
    return (ev["f"], ev["tg"], "ev", round(ev["rf"], 3))


def plan_C15(tier, seed):
    T = ("Trace_Moon", "Trace.cfg")
    rng = random.Random(seed)
    if tier == "quick":
        starts, nd = [991000.5, 1721100.5, 2299000.5, 2451545.5, 3181000.5, 990600.5 + rng.randrange(2100000)], 400
        daily = [-1999, -300, 1500, 1582, 2024, 3999]
        fine = [-1000, 1000, 2900]
        nev = 40
    else:
        starts, nd = [990600.5 + 36525.0 * 2 * i for i in range(30)], 3700
        daily = [-1999, -1500, -1000, -300, 0, 100, 500, 1000, 1500, 1582, 1583, 1700, 1900, 2000, 2024, 2100, 3000, 3999]
        fine = list(range(-1990, 3990, 330))
        nev = 600
    sh = [Shard("pos_%02d" % i, drv_moon.gen_pos, dict(j0=j, ndays=nd), *T) for i, j in enumerate(starts)]
    J0 = 990557.5
    if tier == "quick":
        a = J0 + 60 + rng.randrange(0, 200) * 365.25        # a 3-year window of the 20th/19th century BC, one anywhere
        b = J0 + rng.randrange(0, 5990) * 365.25
        wins = [(a, a + 3 * 365.25), (b, b + 3 * 365.25)]
    else:
        wins = [(J0 + 60 + i * 50 * 365.25, J0 + 60 + (i + 1) * 50 * 365.25) for i in range(12)]       # all of -2000..-1400
        wins += [(J0 + (700 + 265 * i + rng.randrange(0, 250)) * 365.25,) * 2 for i in range(20)]
        wins = [(w[0], w[1] + (0 if w[1] > w[0] else 15 * 365.25)) for w in wins]                      # 15-year windows later on
    for fn, tgs in drv_moon.TARGETS.items():
        for t in tgs:
            items = [("queries", dict(fn=fn, target=t, years=daily + [rng.randrange(-1999, 3999)], step_mode="daily", seed=seed)),
                     ("queries", dict(fn=fn, target=t, years=fine, step_mode="fine", seed=seed)),
                     ("queries", dict(fn=fn, target=t, years=list(range(-2000, 1600, 100)) + [1581, 1582, 1583, 1999, 2000, 2100, 3999 - 1],
                                      step_mode="yearend", seed=seed)),
                     ("events", dict(fn=fn, target=t, seed=seed, n=nev))]
            sh.append(Shard("fnd_%s_%s" % (fn.replace("moon_", ""), t), drv_moon.gen_group, dict(items=items, seed=seed), *T))
            # EVERY event of whole windows (the margins of the series are smallest in the earliest centuries)
            for wi, (a, b) in enumerate(wins):
                sh.append(Shard("all_%s_%s_%02d" % (fn.replace("moon_", ""), t, wi), drv_moon.gen_group,
                                dict(items=[("events", dict(fn=fn, target=t, seed=seed, n=0, window=(a, b)))], seed=seed), *T))
    return dict(
        mc=[MC("MC_Finder", "MC_Finder.cfg", workers=4, heap="2g", note="abstract nearest-event finder protocol")],
        shards=sh, level="model_checking", exhaustive=False, nontrivial=_nt_c15,
        rule="Position: daily samples over windows across -2000..4000 (in order): distance, latitude, parallax = asin(6378.14/dist) "
             "(sin witness), daily longitude advance, illuminated fraction vs the Sun-Earth-Moon triangle built by TLC from the "
             "library's own apparent Moon and Sun positions (unit-vector and square-root witnesses verified by the spec), secular "
             "rates of node and perigee as an action property over consecutive days. Finders (4 finders x 10 target strings): every "
             "calendar day of the sample years in both calendars incl. 29 February of Julian century years, 1/20-period steps over "
             "3-year windows; protocol (never backwards, one month apart, within 1.6 months, totality) and event reality from the "
             "library's own positions (phase longitude 0.06 deg, distance/declination extremal inside +-0.25 d, latitude 0.02 deg, "
             "reported declination 0.15 deg; sharp form: the slope of distance / declination changes sign between r - 0.25 d and "
             "r + 0.25 d). Whole windows in which EVERY event is judged: quick two 3-year windows (one in -2000..-1800), thorough "
             "all of -2000..-1400 and twenty 15-year windows later. Distinct case = distinct day sample / returned event per target.",
        assumptions=["mean node / perigee rates -0.0529539 and +0.1114041 deg/day, tolerance 1e-3 deg/day",
                     "gap ratio bounds in Finders.tla from the natural variation of the months (doubled)"])


def _nt_c14(ev):
    k = ev["k"]
    if k == "season":
        return (k, ev["y"], ev["kq"])
    if k == "eot":
        return (k, ev["tf"])
    if k == "sun":
        return (k, ev["y"], ev["m"], ev["d"], ev["lat"], ev["lonf"], ev["hf"])
    return (k, ev["lat"], ev["lonw"], ev["a2"], ev["d2"], ev["rar"], ev["h0"])


def plan_C14(tier, seed):
    T = ("Trace_Sun", "Trace.cfg")
    rng = random.Random(seed)
    if tier == "quick":
        # every 8th block of 25 years plus the ends and the table seam at year 1000 (each shard is a contiguous run of years)
        blocks = [(-1003, -975), (-12, 12), (985, 1015), (1985, 2030), (2975, 3003)]
        blocks += [(a, a + 24) for a in (rng.randrange(-950, 2950) for _ in range(7))]
        eot = [(-1999, 500), (-500, 500), (1000, 500), (1800, 500), (2020, 800), (3998, 500), (rng.randrange(-1999, 3990), 500)]
        nrs, nrts, per = 6, 6, 150
    else:
        blocks = _split(-1003, 3003, 32)
        blocks = [(a - 1, b) for (a, b) in blocks]          # one year of overlap keeps the year-length clause continuous
        eot = [(y, 3660) for y in range(-1999, 3990, 250)]
        nrs, nrts, per = 16, 16, 1500
    sh = [Shard("season_%+05d" % a, drv_sun.gen_seasons, dict(y0=a, y1=b), *T) for (a, b) in blocks]
    sh.append(Shard("season_far", drv_sun.gen_far_years, dict(), *T))
    sh += [Shard("eot_%+05d" % y, drv_sun.gen_eot, dict(y0=y, ndays=n), *T) for (y, n) in eot]
    sh += [Shard("riseset_%02d" % i, drv_sun.gen_riseset, dict(seed=seed, shard=i, n=per), *T) for i in range(nrs)]
    sh += [Shard("rts_%02d" % i, drv_sun.gen_rts, dict(seed=seed, shard=i, n=per * 3), *T) for i in range(nrts)]
    return dict(
        mc=[], shards=sh, level="model_checking", exhaustive=(tier == "thorough"), nontrivial=_nt_c14,
        rule="Seasons: every (year, season) of contiguous runs of years (thorough: every year -1003..3003; quick: both ends, the table "
             "seam at year 1000 and seeded 25-year blocks) in order; TLC checks the apparent longitude at the returned instant "
             "(1e-5 deg mod 360), 88-95 days between consecutive seasons and 365.2-365.3 days to the same season of the previous "
             "year as action properties, ValueError outside -1000..3000. Equation of time: consecutive days over multi-year runs "
             "across -2000..4000: bound 25 min (17.5 in 1800-2200) and daily change < 45 s. Epoch.rise_set: seeded dates 1900-2100, "
             "latitude +-66.5, longitude +-180, height 0-5000 m: altitude of the Sun's centre from the library's own apparent "
             "position, sidereal time and equatorial2horizontal within 1 deg of -0.83 - dip (sqrt witness verified), hour angles "
             "negative at rise and positive at set. times_rise_transit_set: bodies moving up to 1.5 deg/day incl. RA across 0h: "
             "altitude at the returned times = h0 (0.005 deg, as a sine identity on verified witnesses), transit on the meridian, "
             "None exactly when |cos H0| > 1. Distinct case = (year, season) / day / (date, place) / scenario.",
        assumptions=["a refusal of Epoch.rise_set is accepted only on days on which the Sun's altitude (library positions, 30-minute "
                     "scan) does not cross the standard altitude by more than 1 degree",
                     "grazing = (cos phi cos delta sin H0)^2 < 0.01",
                     "equation-of-time daily-change clause skipped when the minutes field is 0 (the tuple cannot carry the sign there)"])


def _nt_c07(ev):
    return (ev["k"], ev["pl"], ev["tf"])


def plan_C07(tier, seed):
    T = ("Trace_Orbit", "Trace.cfg")
    if tier == "quick":
        reps, kw = 2, dict(nsparse=700, runs=3, runlen=250, nsec=20, nkep=150, nsum=25, ncor=80)
    else:
        reps, kw = 8, dict(nsparse=20000, runs=20, runlen=1500, nsec=400, nkep=4000, nsum=300, ncor=1500)
    sh = []
    for pl in drv_orbit.PLANETS:
        for r in range(reps):
            sh.append(Shard("%s_%d" % (pl, r), drv_orbit.gen_planet, dict(pl=pl, seed=seed * 100 + r, **kw), *T))
    sh.append(Shard("tables", drv_orbit.gen_tables, dict(), *T))
    return dict(
        mc=[MC("MC_Orbit", "MC_Orbit.cfg", workers=2, heap="2g", note="abstract orbit: longitude seam and rate-bound logic on a grid")],
        shards=sh, level="model_checking", exhaustive=False, nontrivial=_nt_c07,
        rule="Per planet (8) and seed: sparse samples over -2000..4000, runs of daily steps and groups of 1-second steps, in "
             "increasing time; TLC checks longitude in [0,360), |B| <= i + 0.05, q(1-1%) <= R <= Q(1+1%) against the library's mean "
             "elements of date (themselves bounded by the linear Table 31.A model typed into Orbit.tla), longitude strictly "
             "increasing and the rate within 3% of the Keplerian extremes (squared, no root) as an action property over consecutive "
             "samples. Two-body comparison: unit vectors of the VSOP87 position and of the position from the library's own mean "
             "elements + kepler_equation: squared chord <= per-planet amplitude, distance 1%. Direct term-by-term fsum of the "
             "tables vs vsop_pos (harness oracle; 1e-11 rad + 64 ulp), FK5 and aberration sizes and the nutation term as linear "
             "relations between library outputs, series mean-longitude rate vs element table (1e-6), Kepler's third law with "
             "the sidereal rate. Distinct case = (kind, planet, instant).",
        assumptions=["perturbation amplitudes: 0.1 deg Mercury-Mars, 1 / 1.5 / 2 / 2.5 deg Jupiter..Neptune",
                     "direct-summation tolerance widened by 64 ulp of the unreduced series value (float noise of the summation itself)"])


def _nt_c11(ev):
    k = ev["k"]
    if k == "kep":
        return (k, ev["ef"], ev["Mf"])
    if k == "pha":
        return (k, ev["rf"], ev["df"], ev["Rf"])
    if k == "node":
        return (k, ev["omf"], ev["ef"], ev["af"], ev["asc"])
    return (k, ev["af"], ev["ef"])


def plan_C11(tier, seed):
    T = ("Trace_Kepler", "Trace.cfg")
    nk, nt, per = (12, 4, 1500) if tier == "quick" else (32, 16, 30000)
    sh = [Shard("kepler_%02d" % i, drv_kepler.gen_kepler, dict(seed=seed, shard=i, n=per), *T) for i in range(nk)]
    sh += [Shard("twobody_%02d" % i, drv_kepler.gen_twobody, dict(seed=seed, shard=i, n=per // 4), *T) for i in range(nt)]
    return dict(
        mc=[MC("MC_Bisect", "MC_Bisect.cfg", workers=2, heap="1g", note="Sinnott bisection on an abstract monotone function, every root position")],
        shards=sh, level="model_checking", exhaustive=False, nontrivial=_nt_c11,
        rule="kepler_equation for e from a fixed ladder up to 0.999999 and uniform in [0, 0.999999] x M in [-1e4, 1e4] incl. multiples "
             "of 180 and their +-1e-9/1e-6/1e-3 neighbours, integers and uniform: TLC checks E - e sin E = M (mod 360, 5e-8 deg) with "
             "the sine witness, same half revolution, tan(v/2) = w tan(E/2) cross-multiplied with w^2(1-e) = 1+e. Two-body helpers: "
             "vis-viva equalities and vp*va = vc^2, 2 pi b <= length <= 2 pi a (sqrt witness) and continuity at e = 0.95, "
             "k = (1+cos i)/2 and the law of cosines on triangle-feasible distances, node passage: mean anomaly from the returned "
             "time, library kepler_equation there, true anomaly = -omega / 180-omega (mod 360) and radius. Distinct case = input tuple.",
        assumptions=["mean anomalies are handed over as Angle objects (the API requires it), i.e. after the Angle's own reduction",
                     "continuity across e = 0.95 means a relative step below 3e-4 (the two approximations differ by 1.4e-4 there)"])


def _nt_c18(ev):
    k = ev["k"]
    if k == "ell":
        return (k, ev["ell"], ev["latf"], ev["hf"])
    if k == "dist":
        return (k, ev["ell"], tuple(ev["p"]))
    if k == "pare":
        return (k, ev["lonf"], ev["blatf"], ev["latf"], ev["distf"], ev["stf"], ev["hf"])
    return (k, ev["raf"], ev["decf"], ev["latf"], ev["distf"], ev["haf"], ev["hf"])


def plan_C18(tier, seed):
    T = ("Trace_Ellipsoid", "Trace.cfg")
    ne, nlat, nd, per, npar = (4, 300, 6, 700, 4) if tier == "quick" else (16, 6000, 16, 12000, 16)
    sh = [Shard("ell_%02d" % i, drv_earth.gen_ell, dict(seed=seed, shard=i, nlat=nlat, nuser=2), *T) for i in range(ne)]
    sh += [Shard("ellhist_%02d" % i, drv_earth.gen_ellhist, dict(seed=seed, shard=i, n=nlat * 2, nuser=3), *T) for i in range(ne // 2)]
    sh += [Shard("dist_%02d" % i, drv_earth.gen_dist, dict(seed=seed, shard=i, n=per, nuser=3), *T) for i in range(nd)]
    sh += [Shard("par_%02d" % i, drv_earth.gen_par, dict(seed=seed, shard=i, n=per), *T) for i in range(npar)]
    return dict(
        mc=[], shards=sh, level="model_checking", exhaustive=False, nontrivial=_nt_c18,
        rule="Per ellipsoid (IAU76, WGS84 and seeded user ellipsoids with f in [0, 0.01], half of them reached through Earth.set()): "
             "latitudes -90..90 incl. poles, equator, +-1e-9 and a seeded grid, heights -500..9000 m, in increasing latitude, and "
             "histories on ONE long-lived Earth object (set() of built-in and user ellipsoids interleaved with the seven queries in "
             "seeded order; the event carries the ellipsoid set last): TLC "
             "checks the meridian-ellipse identity, the height term, rp = a rho cos phi', the curvature end values b^2/a and a^2/b "
             "and its monotonicity towards the poles (action property), linear speed. Distance: random, equatorial, same-meridian "
             "(vs Simpson integral of the library's rm), coincident, very close and nearly antipodal pairs: symmetry, zero, "
             "a*dlon on the equator, meridian integral 1e-4, great circle on the mean sphere. Parallax: directions incl. polar "
             "caps, distances 1e-3..1e3 AU: squared chord x distance^2 bounded by sin^2(8.794 arcsec). Distinct case = input tuple.",
        assumptions=["great-circle comparison uses the sphere of mean radius a(1 - f/3); tolerance 0.6 % (2f for user ellipsoids flatter than the Earth)",
                     "the Simpson integral and the haversine central angle are computed by the harness (comparison in the spec)"])


def _nt_c05(ev):
    return (ev["k"], json.dumps(ev["in"]))


def plan_C05(tier, seed):
    T = ("Trace_Sphere", "Trace.cfg")
    nc, ns, per = (8, 6, 220) if tier == "quick" else (32, 32, 4000)
    sh = [Shard("conv_%02d" % i, drv_sphere.gen_conv, dict(seed=seed, shard=i, n=per), *T) for i in range(nc)]
    # both poles of every frame, exactly, on a grid of obliquities 0..30 (observer latitudes -90..90): step 0.01 / 0.002 deg
    npo, stp = (8, 0.01) if tier == "quick" else (16, 0.002)
    sh += [Shard("poles_%02d" % i, drv_sphere.gen_poles, dict(seed=seed, shard=i, n=int(30.0 / stp / npo) + 1, step=stp), *T) for i in range(npo)]
    sh += [Shard("sep_%02d" % i, drv_sphere.gen_sep, dict(seed=seed, shard=i, n=per * 2), *T) for i in range(ns)]
    return dict(
        mc=[MC("MC_Octa", "MC_Octa.cfg", workers=8, heap="2g", note="rotation operators on the 26 lattice directions x quarter turns")],
        shards=sh, level="model_checking", exhaustive=False, nontrivial=_nt_c05,
        rule="Directions: fixed set (poles, equator, 0/360 seam, near-pole) + uniform on the sphere + polar caps down to 1e-7 deg + "
             "seam neighbourhoods; obliquity 0..30 (incl. 0, 23.439, 30), latitude -90..90 (incl. 0, +-90). For each direction the "
             "three conversion pairs are applied forwards and backwards in both orders; TLC checks on unit-vector witnesses that "
             "the forward map equals the rotation of Sphere.tla (x-axis rotation by the obliquity; horizon rotation by the "
             "colatitude; for the galactic pair: the linear map defined by the library's own images of the three axes, verified "
             "orthonormal and right-handed), that the pair is mutually inverse to 1e-9 deg (scaled chords), ranges, galactic pole. "
             "Separation (chord form, well conditioned from 1e-7 to 179.999 deg), symmetry, position angle against the tangent "
             "plane projection (>= 0.05 deg), enclosing circle between the largest separation and 2/sqrt(3) of it.",
        assumptions=["position angles are judged for separations >= 0.05 deg: below that the float resolution of the input right ascensions exceeds 1e-9 deg of position angle",
                     "antisymmetry of the position angle is not asserted (it is not exact on the sphere)"])


def _nt_c06(ev):
    return (ev["k"], json.dumps(ev["in"]), json.dumps(ev.get("el")))


def plan_C06(tier, seed):
    T = ("Trace_Precession", "Trace.cfg")
    nsh, per = (12, 150) if tier == "quick" else (48, 3000)
    sh = [Shard("prec_%02d" % i, drv_precession.gen_prec, dict(seed=seed, shard=i, n=per), *T) for i in range(nsh)]
    return dict(
        mc=[MC("MC_Octa", "MC_Octa.cfg", workers=8, heap="2g", note="rotation/dot-product algebra of Sphere.tla on lattice directions")],
        shards=sh, level="model_checking", exhaustive=False, nontrivial=_nt_c06,
        rule="Directions uniform on the sphere plus both polar caps (within 5 deg) and the +-85 deg branch boundary; epoch pairs "
             "within +-5 centuries of J2000 (half of them) and +-20 centuries. Per scenario: precession_equatorial there, back, "
             "zero interval and a second star; precession_ecliptical likewise (1e-6 within 5 centuries); the ecliptical route "
             "through the library's mean obliquity at both epochs vs the equatorial route (1e-4); proper motion up to 10 arcsec/yr "
             "after dt and 2 dt (displacement linear and of the right size); Newcomb vs FK5 for epochs in 1800-2100 (0.005 deg); "
             "orbital elements (incl. retrograde orbits) reduced to another equinox and back. TLC judges scaled chords between "
             "unit-vector witnesses; the angle between two stars is compared through a verified chord witness.",
        assumptions=["element reduction there-and-back is asserted within 5 centuries of J2000 to 1e-5 deg (the statement gives no number)"])


def _nt_c08(ev):
    return (ev["k"], ev["tf"], ev.get("nut"))


def plan_C08(tier, seed):
    T = ("Trace_SunEarth", "Trace.cfg")
    nsh, per = (12, 110) if tier == "quick" else (48, 2500)
    sh = [Shard("sunearth_%02d" % i, drv_sunearth.gen_sunearth, dict(seed=seed, shard=i, n=per), *T) for i in range(nsh)]
    # low-accuracy formulas around the solstices and equinoxes: quick the two ends of 1800..2200, thorough every year
    ys = (list(range(1800, 1816)) + list(range(2185, 2201))) if tier == "quick" else list(range(1800, 2201))
    nso = 4 if tier == "quick" else 16
    sh += [Shard("solst_%02d" % i, drv_sunearth.gen_coarse_solstices, dict(years=ys[i::nso]), *T) for i in range(nso)]
    return dict(
        mc=[MC("MC_Octa", "MC_Octa.cfg", workers=8, heap="2g", note="rotation/dot-product algebra of Sphere.tla on lattice directions")],
        shards=sh, level="model_checking", exhaustive=False, nontrivial=_nt_c08,
        rule="Epochs uniform in 1000..3000 (60 %) and -2000..4000 (40 %), all seasons. Per epoch: Sun geometric/apparent (both nutation "
             "settings on the same epoch, either order) vs Earth reflected; rectangular coordinates of date, J2000, B1950 and a "
             "mean equinox within +-3 centuries vs the of-date direction carried there by the library's precession_equatorial "
             "(2 arcsec, norms 1e-5 AU; coarse 252 arcsec bounds enforced where the 2-arcsec clause is a known finding), Earth "
             "J2000 ecliptic vs precession_ecliptical; mean obliquity vs the IAU cubic evaluated by TLC (3 arcsec, |T| <= 20), true "
             "= mean + nutation, nutation vs the 18.6-year main terms on the Moon's node (witness), date argument in every accepted "
             "form; low-accuracy solar formulas vs VSOP87 (0.02 deg, 1800-2200).",
        assumptions=["the 0.02 deg of the statement is applied to every output of the low-accuracy formulas (true and apparent longitude, "
                     "right ascension, declination); the weeks around both solstices and equinoxes of the years at both ends of "
                     "1800..2200 (thorough: of every year) are sampled daily"])


def _nt_c09(ev):
    return (ev["k"], ev.get("pl"), ev.get("tf"), json.dumps(ev.get("el")))


def plan_C09(tier, seed):
    T = ("Trace_Geocentric", "Trace.cfg")
    npl, per, nmin = (10, 56, 4) if tier == "quick" else (32, 3300, 16)
    sh = [Shard("planets_%02d" % i, drv_geocentric.gen_planets, dict(seed=seed, shard=i, n=per), *T) for i in range(npl)]
    sh += [Shard("pluto_%02d" % i, drv_geocentric.gen_pluto, dict(seed=seed, shard=i, n=per * 4), *T) for i in range(max(1, npl // 8))]
    sh += [Shard("minor_%02d" % i, drv_geocentric.gen_minor, dict(seed=seed, shard=i, n=per * 6), *T) for i in range(nmin)]
    return dict(
        mc=[MC("MC_Octa", "MC_Octa.cfg", workers=8, heap="2g", note="rotation/dot-product algebra of Sphere.tla on lattice directions"),
            MC("MC_Bisect", "MC_Bisect.cfg", workers=2, heap="1g", note="bisection used by kepler_equation")],
        shards=sh, level="model_checking", exhaustive=False, nontrivial=_nt_c09,
        rule="7 planets x epochs uniform in -2000..4000: Earth(t) and planet(t - tau) heliocentric vectors from the library (tau from "
             "the fixed point tau = 0.0057755183 |P - E|, checked by the spec), returned (ra, dec) rotated to the ecliptic with the "
             "library's true obliquity must point along P - E within 0.02 deg; elongation vs the apparent Sun; ranges; caller's "
             "Epoch unchanged. Pluto 1885-2099 in the J2000 equator with Sun.rectangular_coordinates_j2000 (1e-4 deg). Minor "
             "bodies: q 0.1-30 AU, e from a ladder incl. 0.979999, 0.98, 0.985, 0.99, 0.999 and exactly 1.0, random orientation, "
             "+-50 yr around perihelion: the heliocentric point H = delta u - S implied by the returned direction (delta from the "
             "orbital-plane equation) must lie in the plane, on the conic, and at the place Kepler's / Barker's equation assigns "
             "to t - tau - T - all as polynomial identities evaluated by TLC.",
        assumptions=["minor-body cases whose line of sight lies within 0.06 deg of the orbital plane are skipped (the plane equation cannot fix the distance)"])


def _nt_c20(ev):
    if ev["k"] == "call":
        return (ev["f"], ev["cls"], ev["variant"], tuple(ev["key"]))
    if ev["k"] == "step":
        o = ev["o"]
        return ("step", o["t"], o.get("op"), o["dst"], o["l"], o.get("r"), o["k"], tuple(ev["sh"]), json.dumps(ev.get("tab")))
    return (ev["k"], ev.get("f"), ev.get("rep"))


def plan_C20(tier, seed):
    T = ("Trace_Api", "Trace.cfg")
    parts, reps, passes = (14, 3, 2) if tier == "quick" else (16, 20, 4)
    sh = [Shard("api_%02d" % i, drv_api.gen_calls, dict(seed=seed, part=i, parts=parts, reps=reps, with_ill=True, passes=passes), *T)
          for i in range(parts)]
    sh += [Shard("nbr_%02d_%d" % (i, r), drv_api.gen_neighbours, dict(seed=seed + 1000 * r, part=i, parts=parts), *T)
           for i in range(parts) for r in range(1 if tier == "quick" else 4)]
    sh += [Shard("suite_tests", drv_api.gen_testsuite, dict(kind="tests"), *T),
           Shard("suite_doctests", drv_api.gen_testsuite, dict(kind="doctests"), *T)]
    sh += _heap_shards("angle", tier, seed, 2) + _heap_shards("epoch", tier, seed, 1)
    sh += _table_shards("interp", tier, seed) + _table_shards("fit", tier, seed)
    return dict(
        mc=[_table_mc("interp", tier), _table_mc("fit", tier),
            MC("MC_ObjHeap", "MC_ObjHeap_angle.cfg", workers=1, heap="3g", env={"HEAP_DEPTH": "2"},
               note="object heap: operators allocate, in-place forms rebind, only documented mutators write (depth 2, all sequences)"),
            MC("MC_ObjHeap", "MC_ObjHeap_epoch.cfg", workers=1, heap="3g", env={"HEAP_DEPTH": "2"}, note="same for Epoch")],
        shards=sh, level="model_checking", exhaustive=False, nontrivial=_nt_c20,
        rule="The catalogue is built by introspection: every public function, static method and method of the 19 modules (about "
             "300 callables incl. the operator-free dunders each class defines). Per callable: `reps` seeded well-typed in-domain "
             "argument sets (docstring :type: lines + a curated domain table) and one ill-typed variant per argument (None, str, "
             "complex, list for a scalar) plus wrong arities; then the same well-typed calls again in shuffled order. Each call logs "
             "digests of every argument object (incl. self) before/after, of all module-level tables, constants and class "
             "attributes before/after, of the result, its finiteness and the outcome class. TLC keeps the module-state digest and a "
             "memo (call signature -> outcome) as specification state and checks frame conditions, determinism across the history, "
             "totality, finiteness and clean rejection at every step. Copy-constructor scenarios (Angle, Epoch, Interpolation, "
             "CurveFitting) and TLC-generated heap behaviours for Angle/Epoch (value objects) and for Interpolation/CurveFitting "
             "(table objects: new / alias / copy / set / set_tolerance / queries) are validated as well.",
        assumptions=["an ill-typed argument that is accepted and yields a finite value of the usual shape is not a violation (truthy flags); "
                     "returning None/NaN or raising anything but TypeError/ValueError is",
                     "Epoch.utc2local (host clock) is excluded from the determinism clause; documented mutators may change self",
                     "VSOP87/periodic-term tables are digested every 40 calls (cost), the small tables and class attributes every call"])


def _nt_growth(ev):
    return (ev["k"], json.dumps({k2: v for k2, v in ev.items() if k2.endswith("f") or k2 in ("n", "pl", "in", "el", "y", "m", "d")}, sort_keys=True))


def plan_GROWTH(tier, seed):
    T = ("Trace_Growth", "Trace.cfg")
    k = 1 if tier == "quick" else 10
    sh = [Shard("refraction", drv_growth.gen_refraction, dict(seed=seed, n=2000 * k), *T),
          Shard("carrington", drv_growth.gen_carrington, dict(seed=seed, n=1000 * k), *T),
          Shard("views", drv_growth.gen_views, dict(seed=seed, n=2000 * k), *T),
          Shard("magnitude", drv_growth.gen_magnitude, dict(seed=seed, n=1500 * k), *T),
          Shard("moonk", drv_growth.gen_moonk, dict(seed=seed, n=300 * k), *T),
          Shard("jsat", drv_growth.gen_jsat, dict(seed=seed, n=400 * k), *T),
          Shard("jphen", drv_growth.gen_jphen, dict(seed=seed, n=150 * k), *T),
          Shard("jsys", drv_growth.gen_jsys, dict(seed=seed, n=200 * k), *T),
          Shard("misc", drv_growth.gen_misc, dict(seed=seed, n=300 * k), *T),
          Shard("physical", drv_growth.gen_physical, dict(seed=seed, n=400 * k), *T),
          Shard("statics", drv_growth.gen_statics, dict(seed=seed, n=1500 * k), *T),
          Shard("elements", drv_growth.gen_elements, dict(seed=seed, n=600 * k), *T),
          Shard("geometry", drv_growth.gen_geometry, dict(seed=seed, n=500 * k), *T),
          Shard("minorhelio", drv_growth.gen_minorhelio, dict(seed=seed, n=600 * k), *T)]
    return dict(mc=[], shards=sh, level="model_checking", exhaustive=False, nontrivial=_nt_growth,
                rule="growth suite (not a listed property): refraction pair, Carrington rotations, Epoch/Angle numeric views, magnitude "
                     "inverse-square law, Moon illuminated fraction at the library's own new/full moons, Galilean satellite radii and continuity",
                assumptions=["bounds are measured on the unchanged tree with a margin of at least 3 (DESIGN section 6, rule 2)"])


PLANS = {"GROWTH": plan_GROWTH, "C20": plan_C20, "C09": plan_C09, "C08": plan_C08, "C06": plan_C06, "C05": plan_C05, "C18": plan_C18, "C11": plan_C11, "C07": plan_C07, "C14": plan_C14, "C15": plan_C15, "C13": plan_C13, "C12": plan_C12, "C17": plan_C17, "C02": plan_C02, "C03": plan_C03, "C04": plan_C04, "C10": plan_C10, "C01": plan_C01, "C16": plan_C16, "C19": plan_C19}
