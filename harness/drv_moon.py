"""Driver for C15: Moon position and lunar event finders."""
import math
import random
from core import fx
import calwalk

BAD = fx(-99999)
AU_KM = 149597870.7
TARGETS = {"moon_phase": ["new", "first", "full", "last"], "moon_perigee_apogee": ["perigee", "apogee"],
           "moon_passage_nodes": ["ascending", "descending"], "moon_maximum_declination": ["northern", "southern"]}
PERIOD = {"moon_phase": 29.53059, "moon_perigee_apogee": 27.55455, "moon_passage_nodes": 27.21222,
          "moon_maximum_declination": 27.32158}
PHASE_TGT = {"new": 0, "first": 90, "full": 180, "last": 270}


def _oc(ex):
    n = type(ex).__name__
    return n if n in ("TypeError", "ValueError", "ZeroDivisionError") else "other:" + n


def _unit(lon, lat):
    lo, la = math.radians(lon), math.radians(lat)
    return [fx(math.cos(la) * math.cos(lo)), fx(math.cos(la) * math.sin(lo)), fx(math.sin(la))]


def gen_pos(j0, ndays):
    """daily positions from JDE j0 on (in order)"""
    from pymeeus.Epoch import Epoch
    from pymeeus.Moon import Moon
    from pymeeus.Sun import Sun
    ts = []
    for i in range(ndays):
        ts.append(j0 + float(i))
        if i % 9 == 4:
            ts += [j0 + i + 0.01, j0 + i + 0.02, j0 + i + 0.5]      # an ephemeris in short steps now and then
    shared = Epoch(j0 - 12345.0)
    for it, t in enumerate(ts):
        # every third instant: the run's ONE long-lived Epoch, which answered all of this for an earlier instant, set() to t
        if it % 3 == 1:
            def EP(tt, _s=shared):
                _s.set(tt)
                return _s
        else:
            EP = Epoch
        e = EP(t)
        lon, lat, dist, par = Moon.geocentric_ecliptical_pos(e)
        k = Moon.illuminated_fraction_disk(EP(t))
        node = Moon.longitude_mean_ascending_node(EP(t))
        peri = Moon.longitude_mean_perigee(EP(t))
        alon, alat, adist, apar = Moon.apparent_ecliptical_pos(EP(t))
        slon, slat, sr = Sun.apparent_geocentric_position(EP(t))
        lon, lat, par = float(lon), float(lat), float(par)
        rs = float(sr) * AU_KM
        um, us = (float(alon), float(alat)), (float(slon), float(slat))
        cm = [math.cos(math.radians(um[1])) * math.cos(math.radians(um[0])),
              math.cos(math.radians(um[1])) * math.sin(math.radians(um[0])), math.sin(math.radians(um[1]))]
        cs = [math.cos(math.radians(us[1])) * math.cos(math.radians(us[0])),
              math.cos(math.radians(us[1])) * math.sin(math.radians(us[0])), math.sin(math.radians(us[1]))]
        smx = [rs * cs[j] - dist * cm[j] for j in range(3)]
        ws = math.sqrt(sum(v * v for v in smx))
        yield {"k": "pos", "t": fx(t), "tf": t, "lon": fx(lon), "lat": fx(lat), "dist": fx(dist), "par": fx(par),
               "sinpar": fx(math.sin(math.radians(par))), "kf": fx(k), "node": fx(float(node)), "peri": fx(float(peri)),
               "um": [fx(v) for v in cm], "us": [fx(v) for v in cs], "rs": fx(rs), "ws": fx(ws)}


def _call(fn, target, jde):
    from pymeeus.Epoch import Epoch
    from pymeeus.Moon import Moon
    return getattr(Moon, fn)(Epoch(jde), target)


def _jde(y, m, d):
    from pymeeus.Epoch import Epoch
    return Epoch(y, m, d).jde()


def gen_queries(fn, target, years, step_mode, seed):
    """queries in increasing order: every calendar day of `years` (step_mode 'daily', both calendars,
    leap days of Julian century years included) or 1/20-period steps over +-3 years (step_mode 'fine')"""
    name = "Moon." + fn
    v = TARGETS[fn].index(target)
    qs = []
    for y in years:
        if step_mode == "daily":
            for (yy, m, d, n) in calwalk.days(y, y):
                qs.append(_jde(yy, m, d))
                if d == 29 and m == 2:
                    qs.append(_jde(yy, m, d) + 0.9)
            qs.append(_jde(y, 12, 31) + 0.9)
            qs += [_jde(y + 1, 1, 1), _jde(y + 1, 1, 1) + 0.5]
        elif step_mode == "yearend":
            # the turn of the year (fractional-year arithmetic): 30 Dec .. 2 Jan in 0.1-day steps
            a = _jde(y, 12, 30)
            qs += [a + 0.1 * i for i in range(45)]
        else:
            a = _jde(y, 1, 1)
            q = a
            while q < a + 3 * 365.25:
                qs.append(q)
                q += PERIOD[fn] / 20.0
    for q in sorted(qs):
        ev = {"k": "q", "f": name, "site": name, "v": v, "tg": target, "q": fx(q), "qf": q}
        try:
            r = _call(fn, target, q)
            extra = 0.0
            if isinstance(r, tuple):
                extra = float(r[1])
                r = r[0]
            ev["r"], ev["rf"], ev["x"], ev["oc"] = fx(r.jde()), r.jde(), fx(extra), "ok"
        except Exception as ex:
            ev["r"], ev["rf"], ev["x"], ev["oc"] = BAD, 0.0, BAD, _oc(ex)
        yield ev


def _moon(jde):
    from pymeeus.Epoch import Epoch
    from pymeeus.Moon import Moon
    lon, lat, dist, par = Moon.apparent_ecliptical_pos(Epoch(jde))
    return float(lon), float(lat), dist


H_SLOPE = 0.005         # days: half-width of the central differences at the ends of the accuracy window


def gen_events(fn, target, seed, n, window=None):
    """n returned events spread over -2000..4000 (window = (j0, j1): EVERY event of that window instead, queried at half-period steps)"""
    from pymeeus.Epoch import Epoch
    from pymeeus.Moon import Moon
    from pymeeus.Sun import Sun
    name = "Moon." + fn
    v = TARGETS[fn].index(target)
    vv = 1 if v == 0 else 0            # first target: perigee / ascending / northern
    rng = random.Random("moonev/%s/%s/%s" % (seed, fn, target))
    seen = set()
    j0, j1 = 990557.5 + 60, 3182029.5 - 60
    if window is not None:
        qs, q = [], max(j0, window[0])
        while q <= min(j1, window[1]):
            qs.append(q)
            q += PERIOD[fn] / 2.0
        qs = iter(qs)
    while len(seen) < n or window is not None:
        if window is not None:
            q = next(qs, None)
            if q is None:
                break
        else:
            q = rng.uniform(j0, j1)
        base = {"k": "ev", "f": name, "site": name, "v": vv, "tg": target, "qf": q, "s": [BAD] * 5, "rep": fx(0),
                "dl": fx(0), "tgt": 0, "kind": "none", "sl": fx(0), "sr": fx(0)}
        try:
            r = _call(fn, target, q)
        except Exception as ex:
            seen.add(q)
            yield dict(base, oc=_oc(ex), rf=0.0)
            continue
        rep = 0.0
        if isinstance(r, tuple):
            rep = float(r[1])
            r = r[0]
        rj = r.jde()
        key = round(rj, 2)
        if key in seen:
            continue
        seen.add(key)
        base.update(oc="ok", rf=rj, rep=fx(rep))
        ts = [rj - 0.5, rj - 0.25, rj, rj + 0.25, rj + 0.5]
        if fn == "moon_phase":
            lm = _moon(rj)[0]
            ls = float(Sun.apparent_geocentric_position(Epoch(rj))[0])
            yield dict(base, kind="phase", dl=fx(lm - ls), tgt=PHASE_TGT[target], dlf=lm - ls)
        elif fn == "moon_perigee_apogee":
            s = [Moon.geocentric_ecliptical_pos(Epoch(t))[2] for t in ts]
            f = lambda t: Moon.geocentric_ecliptical_pos(Epoch(t))[2]
            sl, sr = f(rj - 0.25 + H_SLOPE) - f(rj - 0.25 - H_SLOPE), f(rj + 0.25 + H_SLOPE) - f(rj + 0.25 - H_SLOPE)
            yield dict(base, kind="dist", s=[fx(x) for x in s], sf=s, sl=fx(sl), sr=fx(sr), slf=sl, srf=sr)
        elif fn == "moon_passage_nodes":
            dt = 0.02
            s = [float(Moon.geocentric_ecliptical_pos(Epoch(t))[1]) for t in (rj - 2 * dt, rj - dt, rj, rj + dt, rj + 2 * dt)]
            yield dict(base, kind="node", s=[fx(x) for x in s], sf=s)
        else:
            s = [float(Moon.apparent_equatorial_pos(Epoch(t))[1]) for t in ts]
            f = lambda t: float(Moon.apparent_equatorial_pos(Epoch(t))[1])
            sl, sr = f(rj - 0.25 + H_SLOPE) - f(rj - 0.25 - H_SLOPE), f(rj + 0.25 + H_SLOPE) - f(rj + 0.25 - H_SLOPE)
            yield dict(base, kind="decl", s=[fx(x) for x in s], sf=s, sl=fx(sl), sr=fx(sr), slf=sl, srf=sr)


def gen_group(items, seed):
    """items: list of (kind, args) executed in order into one trace"""
    for kind, kw in items:
        g = {"pos": gen_pos, "queries": gen_queries, "events": gen_events}[kind]
        for ev in g(**kw):
            yield ev
