"""Drivers for C02: Epoch JDE <-> fields, input forms, arithmetic, comparisons."""
import datetime
import math
import random
from core import fx
import calwalk

BAD = fx(-99999)


def _ii(x):
    try:
        if x == int(x) and abs(x) < 2**31:
            return int(x)
    except Exception:
        pass
    return -1


def _nudge(x, k):
    for _ in range(abs(k)):
        x = math.nextafter(x, math.inf if k > 0 else -math.inf)
    return x


def jde_inputs(seed, shard, nb, nr):
    """JDE in [0, 5.4e6]: +-ulp .. +-1 min around day / month / year / century boundaries,
    the reform instant, both ends; plus uniform random.  Sorted."""
    rng = random.Random("rt/%s/%s" % (seed, shard))
    from pymeeus.Epoch import Epoch   # only used to place boundaries (inputs), never as oracle
    out = [0.0, 5.4e6, 2299160.5, 2299159.5, 2299161.5, 0.5, 1.0, 5399999.5]
    offs = [0.0, 1e-6 / 86400, -1e-6 / 86400, 1e-3 / 86400, -1e-3 / 86400, 1.0 / 86400, -1.0 / 86400,
            60.0 / 86400, -60.0 / 86400, 0.5, 1e-9, -1e-9]
    for _ in range(nb):
        kind = rng.random()
        if kind < 0.4:
            base = float(rng.randrange(0, 5400000)) + 0.5            # a civil midnight
        elif kind < 0.7:
            y = rng.randrange(-4711, 10000)
            m = rng.randrange(1, 13)
            base = 1721423.5 + 365.25 * (y - 1) + 30.6 * (m - 1)      # near a month start (rough)
            base = math.floor(base) + 0.5
        elif kind < 0.85:
            y = rng.choice([-4711, -1000, 0, 1, 100, 1000, 1500, 1582, 1583, 1600, 1700, 1900, 2000, 2100, 4000, 9999])
            base = math.floor(1721423.5 + 365.25 * (y - 1)) + 0.5 + rng.randrange(-3, 4)
        else:
            base = 2299160.5 + rng.randrange(-12, 13)
        for off in offs:
            x = base + off
            out.append(x)
        for k in (1, -1, 2, -2):
            out.append(_nudge(base, k))
    # every midnight (and noon) from mid-February to mid-March of the century years: the Gregorian century correction of
    # the inverse recipe switches on 1 March of 1700, 1800, 1900, 2100, ... (shards partition the centuries)
    nsh = 8
    for c in range(-4700, 10000, 100):
        if (c // 100) % nsh != shard % nsh:
            continue
        b0 = math.floor(1721423.5 + 365.25 * (c - 1)) + 0.5
        for j in range(30, 90):
            out.append(b0 + j)
            out.append(b0 + j + 0.5)
        # (the estimate above follows the Julian year and drifts away from the Gregorian 1 March by 7.5 days per
        # millennium: the library places the boundary itself - as an input only)
        try:
            b1 = Epoch(c, 3, 1).jde()
            for j in range(-12, 13):
                out += [b1 + j, b1 + j + 0.5, b1 + j + 0.999]
        except Exception:
            pass
    for _ in range(nr):
        out.append(rng.uniform(0.0, 5.4e6))
    out = sorted(set(x for x in out if 0.0 <= x <= 5.4e6))
    return out


def gen_rt(seed, shard, nb, nr):
    from pymeeus.Epoch import Epoch
    shared = Epoch(2451545.0)
    shared.get_full_date()
    for i, x in enumerate(jde_inputs(seed, shard, nb, nr)):
        ev = {"k": "rt", "xf": x, "x": fx(x), "ok": 1, "bok": 0, "back": BAD}
        try:
            if i % 3 == 2:
                # one long-lived Epoch re-targeted with set(), read before and after: whatever the object remembers of its
                # previous instant must not leak into the views of the new one
                shared.set(x)
                e = shared
            else:
                e = Epoch(x)
            if i % 2 == 1:
                # other views asked for first (civil UTC date, explicit leap seconds, year, weekday): reading one view
                # must not colour the next one
                for view in (lambda: e.get_date(utc=True), lambda: e.get_full_date(leap_seconds=0.0), e.year, e.dow):
                    try:
                        view()
                    except Exception:
                        pass          # these views are judged by their own properties (C10, C16)
            ev["stored"] = fx(e.jde())
            y, m, d, h, mi, s = e.get_full_date()
            ev["f"] = [_ii(y), _ii(m), _ii(d), _ii(h), _ii(mi)]
            ev["sec"] = fx(s) if math.isfinite(s) else BAD
        except Exception as ex:
            ev.update(ok=0, stored=BAD, f=[0, 0, 0, 0, 0], sec=BAD, exc=type(ex).__name__)
            yield ev
            continue
        try:
            ev["back"] = fx(Epoch(y, m, d, h, mi, s).jde())
            ev["bok"] = 1
        except Exception as ex:
            ev.setdefault("unch", 1)
            ev["exc"] = type(ex).__name__
        yield ev


def _setkw(e, args, **kw):
    e.set(*args, **kw)
    return e


def gen_forms(seed, shard, n):
    from pymeeus.Epoch import Epoch
    rng = random.Random("forms/%s/%s" % (seed, shard))
    for _ in range(n):
        y = rng.choice([rng.randrange(-4712, 6001), rng.randrange(1, 3000), 1582, 1900, 2000, 1, 9999, -4712])
        m = rng.randrange(1, 13)
        d = rng.randrange(1, calwalk.mlen(y, m) + 1)
        if y == 1582 and m == 10 and 5 <= d <= 14:
            d = 15
        h, mi = rng.choice([(0, 0), (23, 59), (12, 0), (rng.randrange(24), rng.randrange(60))])
        s = rng.choice([0, 59, 30, rng.randrange(60), rng.randrange(60) + 0.5, rng.randrange(60) + 0.25, 59.75,
                        rng.randrange(60) + rng.randrange(1000000) / 1e6])            # incl. microsecond fractions
        dfrac = d + h / 24.0 + mi / 1440.0 + s / 86400.0
        forms = [("args", lambda: Epoch(y, m, d, h, mi, s)),
                 ("args_utc_false", lambda: Epoch(y, m, d, h, mi, s, utc=False)),       # the documented flag, given explicitly
                 ("tuple_utc_false", lambda: Epoch((y, m, d, h, mi, s), utc=False)),
                 ("set_utc_false", lambda: _setkw(Epoch(2000, 1, 1), (y, m, d, h, mi, s), utc=False)),
                 ("tuple", lambda: Epoch((y, m, d, h, mi, s))),
                 ("list", lambda: Epoch([y, m, d, h, mi, s])),
                 ("short", lambda: Epoch(y, calwalk.SHORT[m - 1], d, h, mi, s)),
                 ("long", lambda: Epoch(y, calwalk.LONG[m - 1], d, h, mi, s)),
                 ("fracday", lambda: Epoch(y, m, dfrac)),
                 ("fracday_tuple", lambda: Epoch((y, m, dfrac))),
                 ("copy", lambda: Epoch(Epoch(y, m, d, h, mi, s))),
                 ("set", lambda: _set(Epoch(2000, 1, 1), y, m, d, h, mi, s)),
                 ("set_epoch", lambda: _set1(Epoch(1999, 5, 5.5), Epoch(y, m, d, h, mi, s))),
                 ("check_input_date", lambda: Epoch.check_input_date(y, m, dfrac)),
                 ("check_input_date_tuple", lambda: Epoch.check_input_date((y, m, dfrac))),
                 ("from_jde", lambda: Epoch(Epoch(y, m, d, h, mi, s).jde()))]
        if 1 <= y <= 9999:
            us = int(round((s % 1) * 1e6))
            # the datetime object is built HERE (preparation): datetime is proleptic Gregorian and has no 29 February in
            # Julian century years, nor a microsecond field of 1000000 - such dates simply have no datetime form
            try:
                dt = datetime.datetime(y, m, d, h, mi, int(s), us)
                forms.append(("datetime", lambda: Epoch(dt)))
                if (h, mi, s) == (0, 0, 0):
                    da = datetime.date(y, m, d)
                    forms.append(("date", lambda: Epoch(da)))
            except ValueError:
                pass
        js, ok, nm = [], [], []
        for name, f in forms:
            nm.append(name)
            try:
                js.append(fx(f().jde()))
                ok.append(1)
            except Exception as ex:
                js.append(BAD)
                ok.append(0)
        yield {"k": "forms", "y": y, "m": m, "d": d, "h": h, "mi": mi, "sec": fx(s), "sf": s, "js": js, "okf": ok, "nm": nm}


def _set(e, *a):
    e.set(*a)
    return e


def _set1(e, other):
    e.set(other)
    return e


def gen_arith(seed, shard, n):
    from pymeeus.Epoch import Epoch
    rng = random.Random("arith/%s/%s" % (seed, shard))
    for _ in range(n):
        x = rng.choice([rng.uniform(1.1e6, 4.3e6), float(rng.randrange(1100000, 4300000)) + 0.5, 2299160.5, 2451545.0])
        off = rng.choice([rng.randrange(-10**6, 10**6), rng.randrange(-1000, 1000) / 16.0, rng.uniform(-1e6, 1e6),
                          rng.uniform(-1, 1), 0, 1, -1, 0.5, 1e6, -1e6, 36525, 1e-5])
        e = Epoch(x)
        x0 = e.jde()
        ev = {"k": "arith", "xf": x0, "of": float(off), "x": fx(x0), "off": fx(off)}
        try:
            ev["sum"] = fx((e + off).jde())
            ev["subj"] = fx((e - off).jde())
            ev["diff1"] = fx((e + off) - e)
            ev["diff2"] = fx(e - (e - off))
            ev["radd"] = fx((off + e).jde())
            c = e
            c += off
            ev["iadd"] = fx(c.jde())
            c = e
            c -= off
            ev["isub"] = fx(c.jde())
            ev["unch"] = 1 if e.jde() == x0 else 0
        except Exception as ex:
            for k in ("sum", "subj", "diff1", "diff2", "radd", "iadd", "isub"):
                ev.setdefault(k, BAD)
            ev["exc"] = type(ex).__name__
        yield ev


def gen_cmp(seed, shard, n):
    from pymeeus.Epoch import Epoch
    rng = random.Random("cmp/%s/%s" % (seed, shard))
    pool = [rng.uniform(0, 5.4e6) for _ in range(24)] + [2451545.0, 2451545.0 + 1e-5, 2451544.5, 0.0, 5.4e6, 2299160.5]
    eps = [Epoch(x) for x in pool]
    cnt = 0
    for i, a in enumerate(eps):
        for j, b in enumerate(eps):
            for other in (b, b.jde()):
                x1, x2 = a.jde(), (other.jde() if isinstance(other, Epoch) else other)
                if x1 != x2 and abs(x1 - x2) < 1e-6:
                    continue
                yield _cmp_event(a, other, x1, x2, 0)
                cnt += 1
                if cnt >= n:
                    break
            if cnt >= n:
                break
        if cnt >= n:
            break
    # nearly coincident instants (1 ulp .. 1e-9 day apart), at every magnitude of JDE: <, <=, >, >= are exact orders of the
    # JDE values; == and != use the documented tolerance and are not judged for these pairs (close = 1)
    for base in [0.5, 1.0, 1000.25, 400000.5, 524287.875, 2451545.0, 5.3e6] + [rng.uniform(0, 5.4e6) for _ in range(12)]:
        for d in (_nudge(base, 1) - base, _nudge(base, 3) - base, 5e-11, 2e-10, 1e-9):
            hi = base + d
            if hi == base:
                continue
            for (p, q) in ((base, hi), (hi, base)):
                a = Epoch(p)
                for other in (Epoch(q), q):
                    yield _cmp_event(a, other, a.jde(), other.jde() if isinstance(other, Epoch) else other, 1)


def _cmp_event(a, other, x1, x2, close):
    from pymeeus.Epoch import Epoch
    return {"k": "cmp", "x1": fx(x1), "x2": fx(x2), "x1f": x1, "x2f": x2, "close": close,
            "lt": int(a < other), "le": int(a <= other), "eq": int(a == other), "ne": int(a != other),
            "gt": int(a > other), "ge": int(a >= other), "num": 0 if isinstance(other, Epoch) else 1}
