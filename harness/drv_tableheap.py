"""spec -> code for table objects: TLC generates table-heap behaviours (MC_TableHeap), the harness executes them on real
Interpolation / CurveFitting objects and logs, after every step, which data set and tolerance every name is observed to
hold and which names share an object; Trace_TableHeap validates the log against the same specification."""
import json
import os
import re
import core

_BEH = re.compile(r'^<<"BEH", (".*")>>\s*$')
TABLES = {1: ([1.0, 2.0, 3.0, 4.0], [2.0, -1.0, 0.5, 3.0]),
          2: ([0.0, 1.0, 2.0, 3.0, 5.0], [1.0, 1.5, 4.0, 2.0, 0.0]),
          3: ([10.0, 11.0, 12.0], [7.0, 3.0, 5.0])}
TOLS = {0: None, 1: 1e-6, 2: 1e-12}


def tlc_behaviours(kind, depth, simulate=0, seed=0):
    import fcntl
    stamp = max(int(os.path.getmtime(os.path.join(core.SPEC, f))) for f in ("MC_TableHeap.tla", "TableHeap.tla"))
    wd = os.path.join(core.WORK, "heapgen", "table_%s_%d_%d_%d" % (kind, depth, simulate, seed))
    os.makedirs(wd, exist_ok=True)
    cache = os.path.join(wd, "behaviours_%d.json" % stamp)
    with open(os.path.join(wd, "lock"), "w") as lk:
        fcntl.flock(lk, fcntl.LOCK_EX)
        if os.path.exists(cache):
            return json.load(open(cache))
        extra = []
        if simulate:
            extra = ["-simulate", "num=%d" % simulate, "-depth", str(depth + 1), "-seed", str(seed + 1)]
        r = core.run_tlc("MC_TableHeap", "MC_TableHeap_%s.cfg" % kind, wd, env={"HEAP_DEPTH": str(depth)},
                         workers=1, heap="3g", extra=extra, timeout=1500)
        behs = []
        for line in r.out.splitlines():
            m = _BEH.match(line)
            if m:
                behs.append(json.loads(json.loads(m.group(1))))
        if not behs or (not simulate and not r.ok):
            raise RuntimeError("TLC behaviour generation failed: %s" % (r.error,))
        with open(cache + ".tmp", "w") as f:
            json.dump(behs, f)
        os.rename(cache + ".tmp", cache)
        return behs


def _signature(kind, o):
    """what the object answers to fixed questions (public API only)"""
    try:
        n = len(o)
        if n == 0:
            return ("empty",)
        if kind == "interp":
            xs = [TABLES[t][0][0] + 0.5 for t in (1, 2, 3)]
            out = [n]
            for x in xs:
                try:
                    out.append(round(float(o(x)), 9))
                except Exception as ex:
                    out.append(type(ex).__name__)
            return tuple(out)
        a, b = o.linear_fitting()
        return (n, round(float(a), 9), round(float(b), 9), round(float(o.correlation_coeff()), 9))
    except Exception as ex:
        return ("error", type(ex).__name__)


def gen_tableheap(kind, depth, simulate, seed, part, parts):
    if kind == "interp":
        from pymeeus.Interpolation import Interpolation as Cls
    else:
        from pymeeus.CurveFitting import CurveFitting as Cls
    ref = {_signature(kind, Cls(list(x), list(y))): t for t, (x, y) in TABLES.items()}
    ref[("empty",)] = 0
    deftol = Cls().get_tolerance() if kind == "interp" else None

    def observe(env):
        tab, tol = {}, {}
        for n in "abc":
            tab[n] = ref.get(_signature(kind, env[n]), -1)
            if kind == "interp":
                tv = env[n].get_tolerance()
                tol[n] = 0 if tv == deftol else (1 if tv == TOLS[1] else (2 if tv == TOLS[2] else -1))
            else:
                tol[n] = 0
        return tab, tol

    behs = tlc_behaviours(kind, depth, simulate, seed)
    for bi, beh in enumerate(behs):
        if bi % parts != part:
            continue
        env = {"a": Cls(), "b": Cls(), "c": Cls()}
        yield {"k": "reset", "o": {"t": "", "dst": "", "l": "", "k": 0}, "tab": {n: 0 for n in "abc"}, "tol": {n: 0 for n in "abc"},
               "sh": [], "oc": "ok", "pure": 1}
        for si, o in enumerate(beh):
            oc, pure = "ok", 1
            try:
                t = o["t"]
                if t == "new":
                    x, y = TABLES[o["k"]]
                    env[o["dst"]] = Cls(list(x), list(y)) if (bi + si) % 2 else Cls(tuple(x), tuple(y))
                elif t == "alias":
                    env[o["dst"]] = env[o["l"]]
                elif t == "copy":
                    env[o["dst"]] = Cls(env[o["l"]])
                elif t == "set":
                    x, y = TABLES[o["k"]]
                    env[o["l"]].set(list(x), list(y))
                elif t == "settol":
                    env[o["l"]].set_tolerance(TOLS[o["k"]])
                elif t == "query":
                    before = observe(env)
                    q = env[o["l"]]
                    if kind == "interp":
                        x0 = q._x[0] if hasattr(q, "_x") else 0.0
                        for call in (lambda: q(x0 + 0.25), lambda: q.derivative(x0 + 0.25), lambda: q.root(), lambda: q.minmax()):
                            try:
                                call()
                            except ValueError:
                                pass
                    else:
                        for call in (q.linear_fitting, q.quadratic_fitting, q.correlation_coeff):
                            try:
                                call()
                            except (ValueError, ZeroDivisionError):
                                pass
                    pure = 1 if observe(env) == before else 0
            except Exception as ex:
                oc = type(ex).__name__
            sh = [m + n for (m, n) in (("a", "b"), ("a", "c"), ("b", "c")) if env[m] is env[n]]
            tab, tol = observe(env)
            yield {"k": "step", "o": o, "tab": tab, "tol": tol, "sh": sh, "oc": oc, "pure": pure}
