"""Machinery self-tests run by setup.sh (exit 0 ok, 2 failure):
 1. every spec module parses (SANY via TLC's parser on the trace/MC modules in use);
 2. Fix.tla agrees exactly with Python Fraction arithmetic on random operations;
 3. a deliberately corrupted trace IS rejected with the expected clause (binding demo)."""
import glob
import json
import os
import subprocess
import sys
import core
import drv_selftest


def sany():
    bad = 0
    import shutil
    tmp = os.path.join(core.WORK, "SELFTEST", "sany_tmp")          # SANY unpacks the standard modules here, not under /tmp
    os.makedirs(tmp, exist_ok=True)
    import atexit
    atexit.register(shutil.rmtree, tmp, True)
    for p in sorted(glob.glob(os.path.join(core.SPEC, "*.tla"))):
        r = subprocess.run(["java", "-Djava.io.tmpdir=" + tmp, "-cp", core.JAR, "tla2sany.SANY", p], cwd=core.SPEC,
                           stdout=subprocess.PIPE, stderr=subprocess.STDOUT)
        out = r.stdout.decode("utf-8", "replace")
        if r.returncode != 0 or "*** Errors" in out or "Fatal errors" in out or "Parse Error" in out:
            print("SANY FAILED: " + p)
            print(out[-1500:])
            bad += 1
    return bad


def corrupt_first(gen, field, delta):
    def g(**kw):
        for i, ev in enumerate(gen(**kw)):
            if i == 40:
                ev[field] = ev[field] + delta
            yield ev
    return g


def _neg_c01(y0, y1):
    import drv_calendar
    for i, ev in enumerate(drv_calendar.gen_c01(y0, y1)):
        if i == 40:
            ev["j2n"] += 2          # a Julian Day off by one
        yield ev


def main():
    bad = sany()
    if bad:
        return 2
    s = core.Shard("fix", drv_selftest.gen, dict(seed=int(os.environ.get("VERIF_SEED", "0") or 0), n=6000),
                   "Trace_FixSelfTest", "Trace.cfg")
    r = core._run_shard("SELFTEST", s)
    if r["error"] or r["verdicts"]:
        print("Fix self-test FAILED", r["error"], r["verdicts"][:5])
        return 2
    print("Fix self-test: %d operations agree with Python Fractions" % r["n"])
    s = core.Shard("neg_c01", _neg_c01, dict(y0=1999, y1=1999), "Trace_Calendar", "Trace.cfg")
    r = core._run_shard("SELFTEST", s)
    got = dict(r["verdicts"])
    if r["error"] or "FWD_NUM" not in got.get(41, []) or len(got) > 2:
        print("negative trace self-test FAILED", r["error"], r["verdicts"][:5])
        return 2
    print("negative trace self-test: corrupted JDE rejected with clause FWD_NUM")
    # Apalache: the induction step of Apa_Calendar holds, and FAILS when the Gregorian rule is broken (non-vacuity)
    import shutil
    import tempfile
    ok = core.run_apalache(core.Apa("Apa_Calendar", "IndInit", "IndInv", 1), os.path.join(core.WORK, "SELFTEST", "apa_ok"))
    if not ok.ok:
        print("Apalache self-test FAILED (induction step): " + str(ok.error))
        return 2
    tmp = tempfile.mkdtemp(prefix="apaneg_", dir=core.WORK)
    try:
        for f in ("Calendar.tla", "Apa_Calendar.tla"):
            shutil.copy(os.path.join(core.SPEC, f), tmp)
        cal = open(os.path.join(tmp, "Calendar.tla")).read()
        broken = cal.replace("(yy % 100 # 0 \\/ yy % 400 = 0)", "(yy % 100 # 0 \\/ yy % 800 = 0)")
        if broken == cal:
            print("Apalache self-test FAILED: could not plant the broken leap rule")
            return 2
        open(os.path.join(tmp, "Calendar.tla"), "w").write(broken)
        p = subprocess.run(["apalache-mc", "check", "--init=IndInit", "--inv=IndInv", "--length=1", "--out-dir=" + os.path.join(tmp, "out"),
                            os.path.join(tmp, "Apa_Calendar.tla")], cwd=tmp, stdout=subprocess.PIPE, stderr=subprocess.STDOUT, timeout=900,
                           env=dict(os.environ, TMPDIR=tmp))
        out = p.stdout.decode("utf-8", "replace")
        if "The outcome is: Error" not in out or "violat" not in out:
            print("Apalache negative self-test FAILED: a leap rule 'divisible by 800' was not refuted\n" + out[-800:])
            return 2
    finally:
        shutil.rmtree(tmp, ignore_errors=True)
        shutil.rmtree(os.path.join(core.WORK, "SELFTEST", "apa_ok"), ignore_errors=True)
    print("Apalache self-test: induction step proved; broken leap rule refuted")
    # Apa_Sexa: the print law holds for every value; the planted falsehood "a carry never reaches the degrees" is refuted
    neg = core.run_apalache(core.Apa("Apa_Sexa", "AnyValue", "NoDegreeCarry", 0), os.path.join(core.WORK, "SELFTEST", "apa_sexa_neg"))
    shutil.rmtree(os.path.join(core.WORK, "SELFTEST", "apa_sexa_neg"), ignore_errors=True)
    if neg.ok or "The outcome is: Error" not in (neg.out or ""):
        print("Apalache negative self-test FAILED (Apa_Sexa.NoDegreeCarry was not refuted): " + str(neg.error)[-400:])
        return 2
    print("Apalache self-test: Apa_Sexa refutes the planted 'no carry into the degrees'")
    return 0


if __name__ == "__main__":
    sys.exit(main())
