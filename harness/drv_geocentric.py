"""Driver for C09: geocentric positions of planets, Pluto and minor bodies."""
import math
import random
from core import fx
from drv_sphere import U, F3

PLANETS = ["Mercury", "Venus", "Mars", "Jupiter", "Saturn", "Uranus", "Neptune"]
J_M2000, J_4000 = 990557.5, 3182029.5
K_LT = 0.0057755183


_SHARED = {}


def _cls(pl):
    return getattr(__import__("pymeeus." + pl, fromlist=[pl]), pl)


def _xyz(lon, lat, r):
    u = U(lon, lat)
    return [r * u[0], r * u[1], r * u[2]]


def gen_planets(seed, shard, n):
    from pymeeus.Epoch import Epoch
    from pymeeus.Earth import Earth
    from pymeeus.Sun import Sun
    from pymeeus.Coordinates import true_obliquity
    rng = random.Random("geo/%s/%s" % (seed, shard))
    # planets within about a degree of the Sun AT a March equinox (Sun at longitude 0): a tenth of a day before or after
    # the equinox the two bodies lie on opposite sides of longitude 0 / 360 (a seeded 250-year window per planet and shard)
    specials = {}
    for pl in ("Mercury", "Venus", "Mars"):
        c = _cls(pl)
        y0 = rng.randrange(-1000, 2750)
        ts = []
        for yy in range(y0, y0 + 250):
            try:
                teq = Sun.get_equinox_solstice(yy, "spring").jde()
                if float(c.geocentric_position(Epoch(teq))[2]) < 1.5:
                    ts += [teq - 0.1, teq + 0.1, teq - 0.4, teq + 0.4]
            except Exception:
                pass
        specials[pl] = ts
    for i in range(n):
        pl = PLANETS[(i + shard) % len(PLANETS)]
        c = _cls(pl)
        t = rng.uniform(J_M2000 + 10, J_4000 - 10)
        if i % 4 == 3:
            # the extremes of the elongation: at (within a day of) the library's own conjunctions and oppositions near t,
            # in particular conjunctions that straddle ecliptic longitude 0 / 360
            names = [f for f in ("conjunction", "opposition", "inferior_conjunction", "superior_conjunction") if hasattr(c, f)]
            try:
                t = getattr(c, rng.choice(names))(Epoch(t)).jde() + rng.uniform(-1.0, 1.0)
            except Exception:
                pass
        if i % 8 == 5 and specials.get(pl):
            t = specials[pl].pop()
        if i % 3 == 2:
            # the process's ONE long-lived Epoch, set() to this instant after it has served other instants and planets
            ep = _SHARED.setdefault("e", Epoch(2451545.0))
            ep.set(t)
        else:
            ep = Epoch(t)
        jb = ep.jde()
        ra, dec, elong = c.geocentric_position(ep)
        ja = ep.jde()
        L0, B0, R0 = Earth.geometric_heliocentric_position(Epoch(t), tofk5=False)
        E = _xyz(float(L0), float(B0), R0)
        tau = 0.0
        for _ in range(6):
            L, B, R = c.geometric_heliocentric_position(Epoch(t - tau), tofk5=False)
            P = _xyz(float(L), float(B), R)
            delta = math.sqrt(sum((a - b) ** 2 for a, b in zip(P, E)))
            tau = K_LT * delta
        eps = float(true_obliquity(Epoch(t)))
        ls, bs, rs = Sun.apparent_geocentric_position(Epoch(t))
        el = float(elong)
        yield {"k": "pl", "site": "pl", "pl": pl, "tf": t, "E": F3(E), "P": F3(P), "RE": fx(R0), "RP": fx(R), "delta": fx(delta), "tau": fx(tau),
               "u": F3(U(float(ra), float(dec))), "ce": fx(math.cos(math.radians(eps))), "se": fx(math.sin(math.radians(eps))), "eps": fx(eps),
               "us": F3(U(float(ls), float(bs))), "elong": fx(el), "cel": fx(math.cos(math.radians(el))),
               "sel": fx(math.sin(math.radians(el))), "jb": fx(jb), "ja": fx(ja)}


def gen_pluto(seed, shard, n):
    from pymeeus.Epoch import Epoch
    from pymeeus.Pluto import Pluto
    from pymeeus.Sun import Sun
    rng = random.Random("pluto/%s/%s" % (seed, shard))
    e0 = math.radians(23.4392911)
    c0, s0 = math.cos(e0), math.sin(e0)
    j0, j1 = Epoch(1885, 1, 5).jde(), Epoch(2098, 12, 25).jde()
    for _ in range(n):
        t = rng.uniform(j0, j1)
        ep = Epoch(t)
        jb = ep.jde()
        ra, dec = Pluto.geocentric_position(ep)
        ja = ep.jde()
        S = list(Sun.rectangular_coordinates_j2000(Epoch(t)))
        tau = 0.0
        for _i in range(6):
            L, B, R = Pluto.geometric_heliocentric_position(Epoch(t - tau))
            x, y, z = _xyz(float(L), float(B), R)
            Pq = [x, y * c0 - z * s0, y * s0 + z * c0]
            G = [Pq[k] + S[k] for k in range(3)]
            delta = math.sqrt(sum(v * v for v in G))
            tau = K_LT * delta
        yield {"k": "plu", "site": "plu", "pl": "Pluto", "tf": t, "Pq": F3(Pq), "S": F3(S), "RP": fx(R), "delta": fx(delta), "tau": fx(tau),
               "u": F3(U(float(ra), float(dec))), "jb": fx(jb), "ja": fx(ja)}


def _two_body(q, e, dt):
    """position in the orbit frame (xp towards perihelion) dt days after perihelion, with the solution of Kepler's /
    Barker's equation as a witness; None when the residual cannot be brought below 1e-13"""
    if e == 1.0:
        W = 0.03649116245 * dt / (q * math.sqrt(q))
        s = W / 3.0
        for _ in range(200):
            s2 = (2.0 * s ** 3 + W) / (3.0 * (s * s + 1.0))
            if s2 == s:
                break
            s = s2
        if abs(s ** 3 + 3.0 * s - W) > 1e-13 * (1.0 + abs(W)):
            return None
        return {"s": s, "xp": q * (1.0 - s * s), "yp": 2.0 * q * s}
    a = q / (1.0 - e)
    b = a * math.sqrt(1.0 - e * e)
    Mraw = 0.9856076686 / (a * math.sqrt(a)) * dt              # degrees
    M = math.radians(math.fmod(Mraw, 360.0))
    if M > math.pi:
        M -= 2.0 * math.pi
    if M < -math.pi:
        M += 2.0 * math.pi
    lo, hi = -math.pi, math.pi                                  # E - e sin E is increasing: bisection, then Newton polish
    f = lambda x: x - e * math.sin(x) - M
    for _ in range(200):
        mid = 0.5 * (lo + hi)
        if f(mid) > 0:
            hi = mid
        else:
            lo = mid
    E = 0.5 * (lo + hi)
    for _ in range(3):
        d = 1.0 - e * math.cos(E)
        if d > 1e-12:
            E -= f(E) / d
    if abs(f(E)) > 1e-13:
        return None
    return {"a": a, "b": b, "E": math.degrees(E), "sE": math.sin(E), "cE": math.cos(E), "Mraw": Mraw,
            "xp": a * (math.cos(E) - e), "yp": b * math.sin(E)}


def gen_minor(seed, shard, n):
    from pymeeus.Epoch import Epoch
    from pymeeus.Angle import Angle
    from pymeeus.Minor import Minor
    from pymeeus.Sun import Sun
    rng = random.Random("minor/%s/%s" % (seed, shard))
    e0 = math.radians(23.4392911)
    c0, s0 = math.cos(e0), math.sin(e0)

    def to_eq(v):
        return [v[0], v[1] * c0 - v[2] * s0, v[1] * s0 + v[2] * c0]
    cnt = 0
    while cnt < n:
        e = rng.choice([0.0, 0.05, 0.3, 0.7, 0.9, 0.97, 0.979999, 0.98, 0.985, 0.99, 0.999, 1.0, 1.0, rng.uniform(0, 0.98)])
        q = rng.choice([0.1, 0.5, 1.0, 2.5, 5.0, 30.0, rng.uniform(0.1, 30.0)])
        inc, node, argp = rng.uniform(0, 180), rng.uniform(0, 360), rng.uniform(0, 360)
        T = 2451545.0 + rng.uniform(-20000, 20000)
        t = T + rng.uniform(-50, 50) * 365.25 * rng.choice([1.0, 0.1, 0.01])
        if cnt % 8 == 5:
            # a close approach: a low-inclination orbit whose perihelion (q about 1 AU) points at the Earth's place at t = T
            from pymeeus.Earth import Earth
            e = rng.choice([0.0, 0.1, 0.4, 0.985, 1.0])
            t = T + rng.uniform(-2.0, 2.0)
            le = float(Earth.geometric_heliocentric_position_j2000(Epoch(T))[0])
            q = 1.0 + rng.choice([1, -1]) * rng.uniform(0.02, 0.12)
            inc, node = rng.uniform(0.5, 8.0), rng.uniform(0, 360)
            argp = (le - node + rng.uniform(-4.0, 4.0)) % 360.0
        if e < 1.0 and q / (1.0 - e) > 2000.0:
            continue
        try:
            if rng.random() < 0.3:
                # a long-lived body: it has already answered for OTHER elements (another conic, another orientation, another
                # perihelion time), then set() gives it these
                m = Minor(rng.choice([0.6, 1.2, 3.0]), rng.choice([0.3, 0.99, 1.0]), Angle(rng.uniform(1, 179)), Angle(rng.uniform(0, 360)),
                          Angle(rng.uniform(0, 360)), Epoch(T + rng.uniform(-300, 300)))
                try:
                    m.geocentric_position(Epoch(t))
                    m.heliocentric_ecliptical_position(Epoch(t))
                except Exception:
                    pass
                m.set(q, e, Angle(inc), Angle(node), Angle(argp), Epoch(T))
            else:
                m = Minor(q, e, Angle(inc), Angle(node), Angle(argp), Epoch(T))
            ep = Epoch(t)
            jb = ep.jde()
            ra, dec, elong = m.geocentric_position(ep)
            ja = ep.jde()
        except Exception as ex:
            cnt += 1
            yield {"k": "min", "site": "min", "oc": type(ex).__name__ + ":" + str(ex)[:40], "el": [q, e, inc, node, argp, T, t], "ef": e, "qf": q}
            continue
        S = list(Sun.rectangular_coordinates_j2000(Epoch(t)))
        RS = math.sqrt(sum(v * v for v in S))
        u = U(float(ra), float(dec))
        i_, o_, w_ = math.radians(inc), math.radians(node), math.radians(argp)
        # orbit frame in the ecliptic J2000, then rotated to the equator J2000
        per = to_eq([math.cos(o_) * math.cos(w_) - math.sin(o_) * math.sin(w_) * math.cos(i_),
                     math.sin(o_) * math.cos(w_) + math.cos(o_) * math.sin(w_) * math.cos(i_), math.sin(w_) * math.sin(i_)])
        qer = to_eq([-math.cos(o_) * math.sin(w_) - math.sin(o_) * math.cos(w_) * math.cos(i_),
                     -math.sin(o_) * math.sin(w_) + math.cos(o_) * math.cos(w_) * math.cos(i_), math.cos(w_) * math.sin(i_)])
        # the harness's own two-body solution at t - tau - T (tau iterated); TLC verifies it before using it
        tau, sol = 0.0, None
        for _ in range(8):
            sol = _two_body(q, e, t - tau - T)
            if sol is None:
                break
            H = [sol["xp"] * per[k] + sol["yp"] * qer[k] for k in range(3)]
            delta = math.sqrt(sum((H[k] + S[k]) ** 2 for k in range(3)))
            tau = K_LT * delta
        if sol is None:
            continue                 # the harness could not solve the equation to 1e-13: no witness, no event
        dtp = t - tau - T
        sol = _two_body(q, e, dtp)
        if sol is None:
            continue
        el = float(elong)
        ev = {"k": "min", "site": "min", "oc": "ok", "el": [q, e, inc, node, argp, T, t], "ef": e, "qf": q, "S": F3(S), "RS": fx(RS),
              "us": F3([v / RS for v in S]), "u": F3(u), "per": F3(per), "qer": F3(qer), "delta": fx(delta), "tau": fx(tau),
              "q": fx(q), "e": fx(e), "dtp": fx(dtp), "jb": fx(jb), "ja": fx(ja), "conic": "parabola" if e == 1.0 else "ellipse",
              "elong": fx(el), "cel": fx(math.cos(math.radians(el))), "sel": fx(math.sin(math.radians(el))),
              "sq": fx(math.sqrt(q)), "s": fx(sol.get("s", 0.0)), "a": fx(sol.get("a", 0.0)), "b": fx(sol.get("b", 0.0)),
              "sa": fx(math.sqrt(sol.get("a", 0.0))), "sE": fx(sol.get("sE", 0.0)), "cE": fx(sol.get("cE", 1.0)),
              "E": fx(sol.get("E", 0.0)), "Mraw": fx(sol.get("Mraw", 0.0))}
        cnt += 1
        yield ev
