"""Driver for C09: geocentric positions of planets, Pluto and minor bodies."""
import math
import random
from core import fx
from drv_sphere import U, F3

PLANETS = ["Mercury", "Venus", "Mars", "Jupiter", "Saturn", "Uranus", "Neptune"]
J_M2000, J_4000 = 990557.5, 3182029.5
K_LT = 0.0057755183


def _cls(pl):
    return getattr(__import__("pymeeus." + pl, fromlist=[pl]), pl)


def _xyz(lon, lat, r):
    u = U(lon, lat)
    return [r * u[0], r * u[1], r * u[2]]


def gen_planets(seed, shard, n):
    from pymeeus.Epoch import Epoch
    from pymeeus.Earth import Earth
    from pymeeus.Sun import Sun
    from pymeeus.Coordinates import true_obliquity
    rng = random.Random("geo/%s/%s" % (seed, shard))
    for i in range(n):
        pl = PLANETS[(i + shard) % len(PLANETS)]
        c = _cls(pl)
        t = rng.uniform(J_M2000 + 10, J_4000 - 10)
        ep = Epoch(t)
        jb = ep.jde()
        ra, dec, elong = c.geocentric_position(ep)
        ja = ep.jde()
        L0, B0, R0 = Earth.geometric_heliocentric_position(Epoch(t), tofk5=False)
        E = _xyz(float(L0), float(B0), R0)
        tau = 0.0
        for _ in range(6):
            L, B, R = c.geometric_heliocentric_position(Epoch(t - tau), tofk5=False)
            P = _xyz(float(L), float(B), R)
            delta = math.sqrt(sum((a - b) ** 2 for a, b in zip(P, E)))
            tau = K_LT * delta
        eps = float(true_obliquity(Epoch(t)))
        ls, bs, rs = Sun.apparent_geocentric_position(Epoch(t))
        el = float(elong)
        yield {"k": "pl", "site": "pl", "pl": pl, "tf": t, "E": F3(E), "P": F3(P), "RE": fx(R0), "RP": fx(R), "delta": fx(delta), "tau": fx(tau),
               "u": F3(U(float(ra), float(dec))), "ce": fx(math.cos(math.radians(eps))), "se": fx(math.sin(math.radians(eps))),
               "us": F3(U(float(ls), float(bs))), "elong": fx(el), "cel": fx(math.cos(math.radians(el))),
               "sel": fx(math.sin(math.radians(el))), "jb": fx(jb), "ja": fx(ja)}


def gen_pluto(seed, shard, n):
    from pymeeus.Epoch import Epoch
    from pymeeus.Pluto import Pluto
    from pymeeus.Sun import Sun
    rng = random.Random("pluto/%s/%s" % (seed, shard))
    e0 = math.radians(23.4392911)
    c0, s0 = math.cos(e0), math.sin(e0)
    j0, j1 = Epoch(1885, 1, 5).jde(), Epoch(2098, 12, 25).jde()
    for _ in range(n):
        t = rng.uniform(j0, j1)
        ep = Epoch(t)
        jb = ep.jde()
        ra, dec = Pluto.geocentric_position(ep)
        ja = ep.jde()
        S = list(Sun.rectangular_coordinates_j2000(Epoch(t)))
        tau = 0.0
        for _i in range(6):
            L, B, R = Pluto.geometric_heliocentric_position(Epoch(t - tau))
            x, y, z = _xyz(float(L), float(B), R)
            Pq = [x, y * c0 - z * s0, y * s0 + z * c0]
            G = [Pq[k] + S[k] for k in range(3)]
            delta = math.sqrt(sum(v * v for v in G))
            tau = K_LT * delta
        yield {"k": "plu", "site": "plu", "pl": "Pluto", "tf": t, "Pq": F3(Pq), "S": F3(S), "RP": fx(R), "delta": fx(delta), "tau": fx(tau),
               "u": F3(U(float(ra), float(dec))), "jb": fx(jb), "ja": fx(ja)}


def gen_minor(seed, shard, n):
    from pymeeus.Epoch import Epoch
    from pymeeus.Angle import Angle
    from pymeeus.Minor import Minor
    from pymeeus.Sun import Sun
    rng = random.Random("minor/%s/%s" % (seed, shard))
    e0 = math.radians(23.4392911)
    c0, s0 = math.cos(e0), math.sin(e0)

    def to_eq(v):
        return [v[0], v[1] * c0 - v[2] * s0, v[1] * s0 + v[2] * c0]
    cnt = 0
    while cnt < n:
        e = rng.choice([0.0, 0.05, 0.3, 0.7, 0.9, 0.97, 0.979999, 0.98, 0.985, 0.99, 0.999, 1.0, 1.0, rng.uniform(0, 0.98)])
        q = rng.choice([0.1, 0.5, 1.0, 2.5, 5.0, 30.0, rng.uniform(0.1, 30.0)])
        inc, node, argp = rng.uniform(0, 180), rng.uniform(0, 360), rng.uniform(0, 360)
        T = 2451545.0 + rng.uniform(-20000, 20000)
        t = T + rng.uniform(-50, 50) * 365.25 * rng.choice([1.0, 0.1, 0.01])
        if e < 1.0 and q / (1.0 - e) > 2000.0:
            continue
        try:
            m = Minor(q, e, Angle(inc), Angle(node), Angle(argp), Epoch(T))
            ep = Epoch(t)
            jb = ep.jde()
            ra, dec, elong = m.geocentric_position(ep)
            ja = ep.jde()
        except Exception as ex:
            cnt += 1
            yield {"k": "min", "site": "min", "oc": type(ex).__name__ + ":" + str(ex)[:40], "el": [q, e, inc, node, argp, T, t], "ef": e, "qf": q}
            continue
        S = list(Sun.rectangular_coordinates_j2000(Epoch(t)))
        u = U(float(ra), float(dec))
        i_, o_, w_ = math.radians(inc), math.radians(node), math.radians(argp)
        # orbit frame in the ecliptic J2000, then rotated to the equator J2000
        nrm = to_eq([math.sin(i_) * math.sin(o_), -math.sin(i_) * math.cos(o_), math.cos(i_)])
        per = to_eq([math.cos(o_) * math.cos(w_) - math.sin(o_) * math.sin(w_) * math.cos(i_),
                     math.sin(o_) * math.cos(w_) + math.cos(o_) * math.sin(w_) * math.cos(i_), math.sin(w_) * math.sin(i_)])
        qer = to_eq([-math.cos(o_) * math.sin(w_) - math.sin(o_) * math.cos(w_) * math.cos(i_),
                     -math.sin(o_) * math.sin(w_) + math.cos(o_) * math.cos(w_) * math.cos(i_), math.cos(w_) * math.sin(i_)])
        nu = sum(a * b for a, b in zip(nrm, u))
        ns = sum(a * b for a, b in zip(nrm, S))
        if abs(nu) < 1e-3:
            continue                 # line of sight nearly in the orbital plane: the plane equation cannot fix the distance
        delta = ns / nu
        if delta <= 0:
            cnt += 1
            yield {"k": "min", "site": "min", "oc": "behind", "el": [q, e, inc, node, argp, T, t], "ef": e, "qf": q}
            continue
        H = [delta * u[k] - S[k] for k in range(3)]
        r = math.sqrt(sum(v * v for v in H))
        tau = K_LT * delta
        dtp = t - tau - T
        ev = {"k": "min", "site": "min", "oc": "ok", "el": [q, e, inc, node, argp, T, t], "ef": e, "qf": q, "S": F3(S), "u": F3(u), "nrm": F3(nrm),
              "per": F3(per), "qer": F3(qer), "delta": fx(delta), "r": fx(r), "q": fx(q), "e": fx(e), "dtp": fx(dtp),
              "jb": fx(jb), "ja": fx(ja), "conic": "parabola" if e == 1.0 else "ellipse",
              "sq": fx(math.sqrt(q)), "a": fx(0), "b": fx(0), "sa": fx(0), "sE": fx(0), "cE": fx(1), "E": fx(0), "Mraw": fx(0)}
        if e < 1.0:
            a = q / (1.0 - e)
            b = a * math.sqrt(1.0 - e * e)
            xp = sum(x * y for x, y in zip(H, per))
            yp = sum(x * y for x, y in zip(H, qer))
            cE = (1.0 - r / a) / e if e > 0 else xp / a
            sE = yp / b
            E = math.degrees(math.atan2(sE, cE))
            nmo = 0.9856076686 / (a * math.sqrt(a))
            ev.update(a=fx(a), b=fx(b), sa=fx(math.sqrt(a)), sE=fx(math.sin(math.radians(E))), cE=fx(math.cos(math.radians(E))),
                      E=fx(E), Mraw=fx(nmo * dtp))
        cnt += 1
        yield ev
