import sys
import core
import plans

if __name__ == "__main__":
    sys.exit(core.main(plans.PLANS))
