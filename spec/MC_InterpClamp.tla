--------------------------- MODULE MC_InterpClamp ---------------------------
(* The effective search interval of root()/minmax(): for every pair of     *)
(* limits on a grid and a table [tmin, tmax], the interval used is         *)
(* [min, max] of the limits clipped to the table (Interp!EffLo/EffHi), it  *)
(* is contained in both the requested interval and the table, and the      *)
(* transcription of the clamping code of Interpolation.root() computes it. *)
EXTENDS Interp, TLC
VARIABLES xl, xh, tmin, tmax
G == -6..6
Init == xl \in G /\ xh \in G /\ tmin \in -4..2 /\ tmax \in -2..4 /\ tmin < tmax
Next == UNCHANGED <<xl, xh, tmin, tmax>>
Spec == Init /\ [][Next]_<<xl, xh, tmin, tmax>>
Q == <<4 * tmin, 4 * tmax>>            \* the table ends in quarter units
Lo == EffLo(FromInt(xl), FromInt(xh), Q)
Hi == EffHi(FromInt(xl), FromInt(xh), Q)
\* transcription of the clamping in Interpolation.root() (as repaired)
CodeLo == LET a == IF xl > xh THEN xh ELSE xl IN IF a < tmin THEN tmin ELSE a
CodeHi == LET b == IF xl > xh THEN xl ELSE xh IN IF b > tmax THEN tmax ELSE b
ClampRefines == Lo = FromInt(IF CodeLo > tmin THEN CodeLo ELSE tmin) /\ Hi = FromInt(IF CodeHi < tmax THEN CodeHi ELSE tmax)
Contained == Lt(Lo, Hi) =>
   /\ Ge(Lo, FromInt(IF xl < xh THEN xl ELSE xh)) /\ Le(Hi, FromInt(IF xl < xh THEN xh ELSE xl))
   /\ Ge(Lo, FromInt(tmin)) /\ Le(Hi, FromInt(tmax))
=============================================================================
