------------------------------- MODULE Sphere -------------------------------
(***************************************************************************)
(* Unit-vector algebra on the celestial sphere in exact fixed point        *)
(* (C05, C06, C08, C09).  Directions arrive as unit vectors <<x, y, z>>    *)
(* (witnesses: the harness converts the angles the library returned with   *)
(* math.sin / math.cos; the spec verifies the norm) and rotations as       *)
(* (cos, sin) pairs (verified: c^2 + s^2 = 1).                             *)
(* Angles of 1e-9 degree are 1.7e-11 rad: differences are scaled by 1e8    *)
(* before they are squared so that nothing underflows the 1e-16 grid.      *)
(***************************************************************************)
EXTENDS Fix

Dot(u, v) == Add(Add(Mul(u[1], v[1]), Mul(u[2], v[2])), Mul(u[3], v[3]))
Cross(u, v) == <<Sub(Mul(u[2], v[3]), Mul(u[3], v[2])), Sub(Mul(u[3], v[1]), Mul(u[1], v[3])), Sub(Mul(u[1], v[2]), Mul(u[2], v[1]))>>
VSub(u, v) == <<Sub(u[1], v[1]), Sub(u[2], v[2]), Sub(u[3], v[3])>>
Scale(u, k) == <<MulInt(u[1], k), MulInt(u[2], k), MulInt(u[3], k)>>
IsUnit(u) == Within(Dot(u, u), One, Dec(1, 12))
IsSC(c, s) == Within(Add(Mul(c, c), Mul(s, s)), One, Dec(1, 12))

S8 == 100000000
\* squared chord between two directions, both scaled by 1e8 (so a chord of 1e-9 deg becomes 1.745e-3)
ChordSq8(u, v) == LET d == Scale(VSub(u, v), S8) IN Dot(d, d)
\* (tol degrees as a chord, scaled by 1e8)^2 for tol = m * 10^-k degrees:  (m 10^-k pi/180 1e8)^2
PiS == Add(FromInt(3), Add(Dec(1415926535, 10), Add(Dec(8979, 14), Dec(32, 16))))
TolSq8(m, k) == LET t == DivInt(Mul(MulInt(Dec(m, k), S8), PiS), 180) IN Mul(t, t)
SameDirection(u, v, m, k) == Le(ChordSq8(u, v), TolSq8(m, k))

\* rotations (passive, as the coordinate conversions use them)
\* about the x axis by an angle with cosine c and sine s: equatorial -> ecliptical with the obliquity
RotX(u, c, s) == <<u[1], Add(Mul(u[2], c), Mul(u[3], s)), Sub(Mul(u[3], c), Mul(u[2], s))>>
RotXInv(u, c, s) == <<u[1], Sub(Mul(u[2], c), Mul(u[3], s)), Add(Mul(u[3], c), Mul(u[2], s))>>
\* hour-angle/declination frame -> horizon frame for latitude phi (sphi, cphi):
\* x_h = x sin(phi) - z cos(phi), y_h = y, z_h = x cos(phi) + z sin(phi)
ToHorizon(u, sphi, cphi) == <<Sub(Mul(u[1], sphi), Mul(u[3], cphi)), u[2], Add(Mul(u[1], cphi), Mul(u[3], sphi))>>
\* general rotation by a matrix given as rows
MatVec(M, u) == <<Dot(M[1], u), Dot(M[2], u), Dot(M[3], u)>>
=============================================================================
