----------------------------- MODULE Trace_ObjHeap -----------------------------
(***************************************************************************)
(* Replay of TLC-generated heap behaviours on real Angle / Epoch objects   *)
(* (spec -> code), validated step by step (code -> spec).                  *)
(*  "reset": a new behaviour starts: three distinct objects of value 0     *)
(*  "step":  o = the operation record TLC chose, executed by the harness   *)
(*           on the real objects; val = value behind each name after it,   *)
(*           sh = names that now share one object (e.g. "ac"), oc outcome  *)
(***************************************************************************)
EXTENDS TraceKit, ObjHeap

Expected == IF Ev.k = "reset" THEN EmptyHeap ELSE Apply(st, Ev.o)
ObsPairs(ev) == {ev.sh[i] : i \in 1..Len(ev.sh)}
\* the heap as OBSERVED after the step (values and sharing as logged): the next step
\* is judged from it, so that an implementation which legitimately returns an existing
\* object (e.g. self for a no-op) is followed rather than contradicted, and tolerances
\* do not accumulate along a behaviour
Observed(ev) ==
  [name |-> [n \in Names |-> CASE n = "a" -> 1
                                [] n = "b" -> IF "ab" \in ObsPairs(ev) THEN 1 ELSE 2
                                [] OTHER   -> IF "ac" \in ObsPairs(ev) THEN 1
                                              ELSE IF "bc" \in ObsPairs(ev) THEN 2 ELSE 3],
   obj |-> <<ev.val["a"],
             IF "ab" \in ObsPairs(ev) THEN ev.val["a"] ELSE ev.val["b"],
             IF "ac" \in ObsPairs(ev) THEN ev.val["a"] ELSE IF "bc" \in ObsPairs(ev) THEN ev.val["b"] ELSE ev.val["c"]>>]

Verdict ==
  IF Ev.k = "reset" THEN {}
  ELSE LET hx == Expected IN
       Viol("HEAP_OUTCOME", Ev.oc = "ok")
  \cup Viol("HEAP_VALUES", \A n \in Names : Within(Ev.val[n], Val(hx, n), Dec(1, 8)))
  \cup Viol("COPY_INDEPENDENT", (Ev.o.t \in {"copy", "new"}) =>
                 \A p \in ObsPairs(Ev) : Ev.o.dst \notin {SubSeq(p, 1, 1), SubSeq(p, 2, 2)})
  \* the result of an arithmetic operator is a fresh object (ObjHeap!Fresh): if it were one of the operands, a later
  \* mutator on the result would change the operand ("fresh" is logged by the harness: result is none of the objects that
  \* existed before the step)
  \cup Viol("RESULT_FRESH", (Ev.o.t \in {"bin", "num", "rnum", "neg", "abs", "inp", "inpnum"}) => Ev.fresh = 1)

Init == TraceInit(EmptyHeap)
Next == StepWith(Verdict, IF Ev.k = "reset" THEN EmptyHeap ELSE Observed(Ev))
Spec == Init /\ [][Next]_<<l, st>>
=============================================================================
