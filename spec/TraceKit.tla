----------------------------- MODULE TraceKit -----------------------------
(***************************************************************************)
(* Shared trace-validation scaffolding.  A trace is an ndjson file (one    *)
(* event per public call of the implementation, written at return or at   *)
(* raise).  The trace specification consumes exactly one event per step;  *)
(* the step is ALWAYS enabled (total verdicts): the set of violated       *)
(* clause names is printed as <<"VERDICT", line, clauses>> and checking   *)
(* goes on, so one early rejection never hides the rest of the trace.     *)
(* Machinery acceptance: POSTCONDITION Consumed (every line was read).    *)
(***************************************************************************)
EXTENDS Integers, Sequences, TLC, Json, IOUtils

VARIABLES l,      \* index of the next event to consume
          st      \* whatever the property relates across events

Trace == ndJsonDeserialize(IOEnv.TRACE_FILE)
Ev    == Trace[l]

TraceInit(st0) == l = 1 /\ st = st0

StepWith(V, next) ==
  /\ l <= Len(Trace)
  /\ IF V = {} THEN TRUE ELSE PrintT(<<"VERDICT", l, V>>)
  /\ st' = next
  /\ l' = l + 1

Consumed == TLCGet("stats").diameter = Len(Trace) + 1

\* clause helper: the singleton name when the clause is violated
Viol(name, ok) == IF ok THEN {} ELSE {name}
=============================================================================
