SPECIFICATION Spec
POSTCONDITION Consumed
CHECK_DEADLOCK FALSE
