--------------------------- MODULE Trace_Ellipsoid ---------------------------
(***************************************************************************)
(* C18 conformance: Earth ellipsoid identities, surface distance, parallax *)
(* (all numbers Fix; a in metres, f flattening, angles in degrees).        *)
(*  "ell":  a f om (angular speed); lat, h; rc rs = rho_cosphi/rho_sinphi  *)
(*          at height h, rc0 rs0 at sea level; rp rm vel; sphi cphi =      *)
(*          sin/cos of the latitude (witnesses); events of one ellipsoid   *)
(*          sorted by latitude from -90 to 90                              *)
(*  "dist": two points; d12 d21 = distances both ways, oc; eq = 1 if both  *)
(*          on the equator (dlon = shorter longitude difference, deg);     *)
(*          mer = 1 if same meridian (dint = Simpson integral of the       *)
(*          library's rm between the latitudes); sig = central angle of    *)
(*          the great circle (radians, harness haversine); same = 1 if     *)
(*          the two points coincide                                        *)
(*  "par":  parallax_correction: u0 u1 = unit vectors of the geocentric    *)
(*          and topocentric directions (witnesses), dist (AU)              *)
(***************************************************************************)
EXTENDS TraceKit, Fix

PiE == Add(FromInt(3), Add(Dec(1415926535, 10), Add(Dec(8979, 14), Dec(32, 16))))
SC(s, c) == Within(Add(Mul(s, s), Mul(c, c)), One, Dec(1, 12))
Rel(x, y, tol) == Le(Abs(Sub(x, y)), Mul(tol, Max(Abs(x), Abs(y))))
Dot(u, v) == Add(Add(Mul(u[1], v[1]), Mul(u[2], v[2])), Mul(u[3], v[3]))

VerdictEll ==
  LET omf == Sub(One, Ev.f)            \* b / a
      omf2 == Mul(omf, omf)
      ha == Ev.h                        \* metres
  IN Viol("WITNESS", SC(Ev.sphi, Ev.cphi))
\cup Viol("MERIDIAN_ELLIPSE", Within(Add(Mul(Mul(Ev.rc0, Ev.rc0), omf2), Mul(Ev.rs0, Ev.rs0)), omf2, Dec(1, 12)))
\cup Viol("HEIGHT_TERM", /\ Within(Mul(Sub(Ev.rc, Ev.rc0), Ev.a), Mul(ha, Ev.cphi), Add(Dec(1, 6), Mul(Dec(1, 9), Abs(ha))))
                         /\ Within(Mul(Sub(Ev.rs, Ev.rs0), Ev.a), Mul(ha, Ev.sphi), Add(Dec(1, 6), Mul(Dec(1, 9), Abs(ha)))))
\cup Viol("PARALLEL_RADIUS", Within(Ev.rp, Mul(Ev.a, Ev.rc0), Mul(Dec(1, 9), Ev.a)))
\cup Viol("LINEAR_VELOCITY", Within(Ev.vel, Mul(Ev.om, Ev.rp), Mul(Dec(1, 9), Add(One, Abs(Ev.vel)))))
\* radius of curvature of the meridian: a (1-f)^2 at the equator, a / (1-f) at the poles, between them elsewhere
\cup Viol("MERIDIAN_CURVATURE_ENDS",
          /\ (IsZero(Ev.lat) => Rel(Ev.rm, Mul(Ev.a, omf2), Dec(1, 9)))
          /\ (Abs(Ev.lat) = FromInt(90) => Rel(Mul(Ev.rm, omf), Ev.a, Dec(1, 9)))
          /\ Ge(Mul(Ev.rm, Add(One, Dec(1, 9))), Mul(Ev.a, omf2)) /\ Le(Mul(Mul(Ev.rm, omf), Sub(One, Dec(1, 9))), Ev.a))
\cup (IF st.k = "ell" /\ st.a = Ev.a /\ st.f = Ev.f /\ Lt(st.lat, Ev.lat)
      THEN Viol("MERIDIAN_CURVATURE_MONOTONE",      \* decreasing towards the equator, increasing towards the poles
                IF Le(Ev.lat, Zero) THEN Le(Ev.rm, Mul(st.rm, Add(One, Dec(1, 12))))
                ELSE IF Ge(st.lat, Zero) THEN Ge(Mul(Ev.rm, Add(One, Dec(1, 12))), st.rm) ELSE TRUE)
      ELSE {})

VerdictDist ==
  IF Ev.same = 1 THEN Viol("DISTANCE_COINCIDENT_ZERO", Ev.oc = "ok" /\ IsZero(Ev.d12))
  ELSE IF Ev.oc # "ok" THEN {"TOTAL"}
  ELSE Viol("DISTANCE_SYMMETRIC", Rel(Ev.d12, Ev.d21, Dec(1, 11)))
  \cup Viol("DISTANCE_POSITIVE", Gt(Ev.d12, Zero))
  \cup (IF Ev.eq = 1 THEN Viol("DISTANCE_EQUATOR", Rel(MulInt(Ev.d12, 180), Mul(Mul(Ev.a, Ev.dlon), PiE), Dec(1, 9))) ELSE {})
  \cup (IF Ev.mer = 1 THEN Viol("DISTANCE_MERIDIAN_INTEGRAL", Rel(Ev.d12, Ev.dint, Dec(1, 4))) ELSE {})
  \* great circle on the sphere of mean radius (2a + b)/3 = a (1 - f/3); 0.6 % for the Earth's flattening,
  \* 2 f for the (much flatter) user ellipsoids, whose meridian curvature alone differs by that much
  \cup (IF Ev.gc = 1 THEN
          LET gcd == Mul(Mul(Ev.a, Sub(One, DivInt(Ev.f, 3))), Ev.sig)
              tol == Max(Dec(6, 3), MulInt(Ev.f, 2))
          IN Viol("DISTANCE_GREAT_CIRCLE", Le(Abs(Sub(Ev.d12, gcd)), Mul(tol, gcd)))
        ELSE {})

\* sin(8.794 arcsec) = 4.2634515e-5
SinPi0 == Dec(42634515, 12)
\* chord between the geocentric and the topocentric direction, scaled by the distance BEFORE squaring (the chord itself is
\* down to 4e-8 at 1000 AU and its square would sit at the 1e-16 resolution of Fix)
ScaledChord2 ==
  LET d == <<Mul(Sub(Ev.u1[1], Ev.u0[1]), Ev.dist), Mul(Sub(Ev.u1[2], Ev.u0[2]), Ev.dist), Mul(Sub(Ev.u1[3], Ev.u0[3]), Ev.dist)>>
  IN Dot(d, d)
\* chord <= horizontal parallax (as a sine, 1.002 slack for height and the sine/chord difference)
ParLim == Mul(SinPi0, Dec(1002, 3))
VerdictPar ==
  Viol("WITNESS", Within(Dot(Ev.u0, Ev.u0), One, Dec(1, 12)) /\ Within(Dot(Ev.u1, Ev.u1), One, Dec(1, 12)))
  \cup Viol("PARALLAX_BOUNDED", Le(ScaledChord2, Mul(ParLim, ParLim)))
\* ecliptical form: same displacement bound (a rotation of the frame does not change the chord), the topocentric latitude
\* is a latitude, and sin s' = sin s * (geocentric / topocentric distance), a ratio within 1 +- rho*sin(pi) of 1
VerdictParE ==
  IF Ev.oc # "ok" THEN {"PARALLAX_ECL_TOTAL"}
  ELSE LET \* |sin s' - sin s| * dist <= sin s * sin(pi0) * rho / (1 - rho sin(pi)) : factor 1.05 covers rho <= 1.0015 and
           \* 1/(1 - 0.0427) at the closest distance of the quantifier (1e-3 AU)
           dev == Mul(Ev.semi, Mul(SinPi0, Dec(105, 2))) IN
       Viol("WITNESS", Within(Dot(Ev.u0, Ev.u0), One, Dec(1, 12)) /\ Within(Dot(Ev.u1, Ev.u1), One, Dec(1, 12)))
       \cup Viol("PARALLAX_ECL_LATITUDE_RANGE", Ev.latok = 1)
       \cup Viol("PARALLAX_ECL_BOUNDED", Le(ScaledChord2, Mul(ParLim, ParLim)))
       \cup Viol("PARALLAX_ECL_SEMIDIAMETER", Le(Mul(Abs(Sub(Ev.tsemi, Ev.semi)), Ev.dist), Add(dev, Mul(Dec(1, 14), Ev.dist))))

Verdict == CASE Ev.k = "ell" -> VerdictEll [] Ev.k = "dist" -> VerdictDist [] Ev.k = "par" -> VerdictPar [] Ev.k = "pare" -> VerdictParE [] OTHER -> {"UNKNOWN_KIND"}
Blank == [k |-> "", a |-> Zero, f |-> Zero, lat |-> Zero, rm |-> Zero]
Advance == IF Ev.k = "ell" THEN [k |-> "ell", a |-> Ev.a, f |-> Ev.f, lat |-> Ev.lat, rm |-> Ev.rm] ELSE Blank
Init == TraceInit(Blank)
Next == StepWith(Verdict, Advance)
Spec == Init /\ [][Next]_<<l, st>>
=============================================================================
