SPECIFICATION Spec
INVARIANT Converges
INVARIANT InRange
CHECK_DEADLOCK FALSE
