------------------------------ MODULE Trace_Api ------------------------------
(***************************************************************************)
(* C20 conformance: every public callable executed with well-typed         *)
(* in-domain and with ill-typed arguments, the same calls repeated in a    *)
(* shuffled order (history clause), neighbour histories (base point and    *)
(* one-argument perturbations, forwards re-using the caller's objects and  *)
(* backwards in a fresh interpreter - cls "near"), copy-constructors.      *)
(*  "call": f, cls ("well"/"ill"), pre post (argument digests), gpre gpost *)
(*          (module state digests), res shape fin oc, key, clock           *)
(*  "copy": class; c0 = digest of the copy right after it was made, c1 =   *)
(*          after the source was mutated through its documented mutators;  *)
(*          s1 = source after that, s2 = source after the copy was mutated *)
(*  "skip": a callable for which no argument generator exists (reported)   *)
(***************************************************************************)
EXTENDS TraceKit, ApiHeap

VerdictCall ==
     Viol("ARGUMENTS_UNCHANGED", ArgumentsUnchanged(Ev))
\cup Viol("GLOBALS_UNCHANGED", GlobalsUnchanged(st.glob, Ev))
\cup Viol("DETERMINISTIC", Deterministic(st.memo, Ev))
\cup Viol("TOTAL_ON_DOMAIN", Total(Ev))
\cup Viol("FINITE_VALUE", FiniteValue(Ev))
\cup Viol("REJECTS_CLEANLY", RejectsCleanly(Ev))
\cup Viol("NEIGHBOUR_CLEAN", NearClean(Ev))

VerdictCopy ==
     Viol("COPY_EQUALS_SOURCE", Ev.c0 = Ev.s0)
\cup Viol("COPY_INDEPENDENT", Ev.c1 = Ev.c0 /\ Ev.s2 = Ev.s1)

\* a call the documentation itself declares invalid must be refused, with TypeError or ValueError
VerdictMust == Viol("REJECTS_AS_DOCUMENTED", Ev.oc \in Rejections) \cup Viol("GLOBALS_UNCHANGED", Ev.gpre = Ev.gpost)

Verdict == CASE Ev.k = "must" -> VerdictMust [] Ev.k = "call" -> VerdictCall [] Ev.k = "copy" -> VerdictCopy [] Ev.k = "skip" -> {"NO_GENERATOR"} [] OTHER -> {"UNKNOWN_KIND"}
Advance == IF Ev.k = "must" THEN [st EXCEPT !.glob = Ev.gpost] ELSE IF Ev.k = "call" THEN [glob |-> Ev.gpost, memo |-> Remember(st.memo, Ev)] ELSE st
Init == TraceInit([glob |-> -1, memo |-> <<>>])
Next == StepWith(Verdict, Advance)
Spec == Init /\ [][Next]_<<l, st>>
=============================================================================
