---------------------------- MODULE Trace_SunEarth ----------------------------
(***************************************************************************)
(* C08 conformance: Sun/Earth positions across frames; obliquity/nutation. *)
(*  "refl":  Ls Bs Rs / Le Be Re geometric, Las Bas Ras / Lae Bae Rae      *)
(*           apparent positions of the Sun (geocentric) and of the Earth   *)
(*           (heliocentric), degrees / AU                                  *)
(*  "frame": R = radius vector; for each frame F in {date, J2000, B1950,   *)
(*           equinox}: uF = unit vector of the library's rectangular       *)
(*           coordinates, nF their norm; pJ pB pE = the of-date direction  *)
(*           carried to that frame by the library's precession_equatorial  *)
(*           (harness wiring); ueJ / peJ = Earth J2000 ecliptic direction  *)
(*           vs the of-date one carried by precession_ecliptical           *)
(*  "obl":   T (centuries from J2000), e0 = mean obliquity, et = true,     *)
(*           dpsi deps (deg), sO cO = sin/cos of the Moon's mean node      *)
(*  "coarse": low-accuracy longitude / RA / Dec vs the VSOP87 ones         *)
(***************************************************************************)
EXTENDS TraceKit, Sphere

Arcsec(m, k) == DivInt(Dec(m, k), 3600)             \* m 10^-k arcseconds in degrees

VerdictRefl ==
     Viol("SUN_IS_EARTH_REFLECTED_GEOMETRIC",
          /\ WithinMod(Sub(Ev.Ls, Ev.Le), FromInt(180), 360, Dec(1, 9)) /\ Within(Ev.Bs, Neg(Ev.Be), Dec(1, 10))
          /\ Within(Ev.Rs, Ev.Re, Dec(1, 12)))
\cup Viol("SUN_IS_EARTH_REFLECTED_APPARENT",
          /\ WithinMod(Sub(Ev.Las, Ev.Lae), FromInt(180), 360, Dec(1, 9)) /\ Within(Ev.Bas, Neg(Ev.Bae), Dec(1, 10))
          /\ Within(Ev.Ras, Ev.Rae, Dec(1, 12)))

TwoArcsec(u, v) == SameDirection(u, v, 5556, 7)     \* 2 arcsec = 5.556e-4 degree
VerdictFrame ==
     Viol("WITNESS", IsUnit(Ev.ud) /\ IsUnit(Ev.uJ) /\ IsUnit(Ev.uB) /\ IsUnit(Ev.uE) /\ IsUnit(Ev.pJ) /\ IsUnit(Ev.pB) /\ IsUnit(Ev.pE)
                     /\ IsUnit(Ev.ueJ) /\ IsUnit(Ev.peJ))
\cup (IF Ev.inr = 0 THEN {} ELSE
      Viol("NORM_OF_DATE", Within(Ev.nd, Ev.R, Dec(1, 5)))
 \* the mean-equinox-of-date rectangular coordinates are the Sun's ecliptic place (use = its unit vector, from the
 \* library's own geometric geocentric position) turned by the library's own mean obliquity (ce0 se0, verified)
 \cup Viol("WITNESS", IsUnit(Ev.use) /\ IsSC(Ev.ce0, Ev.se0))
 \cup Viol("FRAME_OF_DATE", TwoArcsec(Ev.ud, RotXInv(Ev.use, Ev.ce0, Ev.se0)))
 \cup Viol("NORM_J2000", Within(Ev.nJ, Ev.R, Dec(1, 5)))
 \cup Viol("NORM_B1950", Within(Ev.nB, Ev.R, Dec(1, 5)))
 \cup Viol("NORM_EQUINOX", Within(Ev.nE, Ev.R, Dec(1, 5)))
 \cup Viol("FRAME_J2000", TwoArcsec(Ev.uJ, Ev.pJ))
 \cup Viol("FRAME_B1950", TwoArcsec(Ev.uB, Ev.pB))
 \cup Viol("FRAME_EQUINOX", TwoArcsec(Ev.uE, Ev.pE))
 \cup Viol("FRAME_EARTH_J2000", TwoArcsec(Ev.ueJ, Ev.peJ))
 \* weaker bounds enforced everywhere (the 2-arcsec clauses are known findings, see KNOWN_FINDINGS.txt)
 \cup Viol("FRAME_J2000_COARSE", SameDirection(Ev.uJ, Ev.pJ, 7, 2))          \* 0.07 deg = 252 arcsec
 \cup Viol("FRAME_EQUINOX_COARSE", SameDirection(Ev.uE, Ev.pE, 7, 2))
 \cup Viol("FRAME_EARTH_J2000_COARSE", SameDirection(Ev.ueJ, Ev.peJ, 7, 2))
 \* the known table defect is in the LONGITUDE series: the ecliptic latitude of the two J2000 positions (third component =
 \* sine of the latitude) still has to agree to 2 arcsec (1e-5)
 \cup Viol("FRAME_EARTH_J2000_LATITUDE", Within(Ev.ueJ[3], Ev.peJ[3], Dec(1, 5)))
 \cup Viol("FRAME_B1950_COARSE", SameDirection(Ev.uB, Ev.pB, 25, 1)))        \* 2.5 deg

\* IAU (1976) mean obliquity: 23 26 21.448 - 46.8150 T - 0.00059 T^2 + 0.001813 T^3 arcsec
IAUObliquity(T) ==
  LET sec == Add(Dec(21448, 3), Mul(T, Add(Neg(Dec(468150, 4)), Mul(T, Add(Neg(Dec(59, 5)), Mul(T, Dec(1813, 6)))))))
  IN Add(Add(FromInt(23), DivInt(FromInt(26), 60)), DivInt(sec, 3600))
VerdictObl ==
     Viol("WITNESS", IsSC(Ev.cO, Ev.sO))
\cup (IF Le(Abs(Ev.T), FromInt(20)) THEN Viol("MEAN_OBLIQUITY_IAU", Within(Ev.e0, IAUObliquity(Ev.T), Arcsec(3, 0))) ELSE {})
\cup Viol("TRUE_OBLIQUITY_IS_SUM", Within(Ev.et, Add(Ev.e0, Ev.deps), Dec(1, 10)))
\cup Viol("NUTATION_LONGITUDE_MAIN_TERM", Within(Ev.dpsi, Neg(Mul(Arcsec(1720, 2), Ev.sO)), Arcsec(35, 1)))
\cup Viol("NUTATION_OBLIQUITY_MAIN_TERM", Within(Ev.deps, Mul(Arcsec(920, 2), Ev.cO), Arcsec(15, 1)))
\cup Viol("DATE_FORMS_AGREE", \A i \in 1..Len(Ev.forms) : Within(Ev.forms[i], Ev.e0, Dec(1, 12)))
\* the three functions called with the SAME argument form (incl. forms that carry a time of day): <<mean, nutation, true>>
\cup Viol("TRUE_OBLIQUITY_IS_SUM_EVERY_FORM",
          \A i \in 1..Len(Ev.sums) : Within(Ev.sums[i][3], Add(Ev.sums[i][1], Ev.sums[i][2]), Dec(1, 10)))

VerdictCoarse ==
  IF Ev.inr = 0 THEN {} ELSE
     Viol("COARSE_APPARENT_LONGITUDE", WithinMod(Ev.lc, Ev.lv, 360, Dec(2, 2)))
\cup Viol("COARSE_TRUE_LONGITUDE", WithinMod(Ev.tc, Ev.tv, 360, Dec(2, 2)) /\ Within(Ev.rc, Ev.rv, Dec(1, 3)))
\cup Viol("COARSE_RA_DEC", WithinMod(Ev.rac, Ev.rav, 360, Dec(2, 2)) /\ Within(Ev.dc, Ev.dv, Dec(2, 2)))

Verdict == CASE Ev.k = "refl" -> VerdictRefl [] Ev.k = "frame" -> VerdictFrame [] Ev.k = "obl" -> VerdictObl
             [] Ev.k = "coarse" -> VerdictCoarse [] OTHER -> {"UNKNOWN_KIND"}
Init == TraceInit(0)
Next == StepWith(Verdict, 0)
Spec == Init /\ [][Next]_<<l, st>>
=============================================================================
