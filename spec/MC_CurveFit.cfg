SPECIFICATION Spec
INVARIANT LinDetZeroIffDegenerate
INVARIANT QuadDetZeroIffDegenerate
INVARIANT LinNormalEquations
INVARIANT QuadNormalEquations
INVARIANT CauchySchwarz
INVARIANT FixAgrees
CHECK_DEADLOCK FALSE
