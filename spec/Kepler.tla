------------------------------- MODULE Kepler -------------------------------
(***************************************************************************)
(* C11: Kepler's equation and two-body relations as polynomial identities  *)
(* over witnesses (sines, cosines and square roots supplied by the harness *)
(* from IEEE math and verified here: s^2 + c^2 = 1, w^2 = x).              *)
(***************************************************************************)
EXTENDS Fix

Rad2Deg == Add(FromInt(57), Add(Dec(295779513, 9), Add(Dec(8232, 14), Dec(8, 16))))     \* 57.2957795130823208
PiK == Add(FromInt(3), Add(Dec(1415926535, 10), Add(Dec(8979, 14), Dec(32, 16))))
SC(s, c) == Within(Add(Mul(s, s), Mul(c, c)), One, Dec(1, 12))

\* E - e sin E = M (mod 360), angles in degrees
Residual(E, e, sE, M) == Sub(Sub(E, Mul(Mul(e, sE), Rad2Deg)), M)
ResidualOK(E, e, sE, M) == WithinMod(Residual(E, e, sE, M), Zero, 360, Dec(5, 8))
\* half revolution of an angle: 0 for [0, 180), 1 for [180, 360)
Half(x) == IF Lt(Mod(x, 360), FromInt(180)) THEN 0 ELSE 1
\* at an exact multiple of 180 both halves are acceptable (E = M there)
SameHalf(M, E) == Half(M) = Half(E) \/ IsZero(Mod(M, 180)) \/ Le(DistMod(M, 180), Dec(1, 7))
\* tan(v/2) = w tan(E/2), w^2 (1 - e) = 1 + e, cross-multiplied
TrueAnomalyOK(e, w, sv, cv, sE2, cE2) ==
  /\ Within(Mul(Mul(w, w), Sub(One, e)), Add(One, e), Mul(Dec(1, 11), Add(One, Mul(w, w))))
  /\ Within(Mul(sv, cE2), Mul(Mul(w, cv), sE2), Mul(Dec(1, 9), Add(One, w)))
=============================================================================
