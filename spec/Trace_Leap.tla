----------------------------- MODULE Trace_Leap -----------------------------
(***************************************************************************)
(* C10 conformance.  Event kinds:                                          *)
(*  "ls":  y, m, v = Epoch.leap_seconds(y, m)        (in (y, m) order)     *)
(*  "last": y, m, d, v = Epoch.get_last_leap_second()                      *)
(*  "utc": civil date y m d h mi s (ints); ju / jn = jde() built with and  *)
(*         without utc=True (Fix); rb = get_full_date(utc=True) of the     *)
(*         utc epoch as <<y, m, d, h, mi>> and rbs = seconds (Fix)         *)
(*  "ovr": as "utc" with leap_seconds = kk on both directions              *)
(*  "dt":  y, m, dt = Epoch.tt2ut(y, m) (Fix, seconds)   (in order)        *)
(***************************************************************************)
EXTENDS TraceKit, LeapSeconds, Computus, Fix

MsTol   == Dec(1, 1)                       \* 0.1 ms: float resolution of a JDE difference
MsPerDay == 86400000
\* civil instant in seconds on a common axis (JDN * 86400 + time of day)
Instant(yy, mm, dd, hh, mi, sec) ==
  Add(MulInt(FromInt(JDNOf(yy, mm, dd)), 86400), Add(FromInt(3600 * hh + 60 * mi), sec))
ObsMs(ev) == MulInt(Sub(ev.ju, ev.jn), MsPerDay)
FieldsOK(ev) == /\ ev.rb[2] \in 1..12 /\ ev.rb[3] \in 1..31 /\ ev.rb[4] \in 0..23 /\ ev.rb[5] \in 0..59
                /\ IsFix(ev.rbs) /\ Ge(ev.rbs, Zero) /\ Le(ev.rbs, FromInt(61))
ReadBackOK(ev) ==
  /\ FieldsOK(ev)
  /\ Within(Instant(ev.rb[1], ev.rb[2], ev.rb[3], ev.rb[4], ev.rb[5], ev.rbs),
            Instant(ev.y, ev.m, ev.d, ev.h, ev.mi, FromInt(ev.s)), Dec(1, 3))

JointYears == {500, 1600, 1700, 1800, 1860, 1900, 1920, 1941, 1961, 1986, 2005, 2050, 2150}

Verdict ==
  CASE Ev.k = "ls" ->
         Viol("LS_TABLE", Ev.v = Cum(Ev.y, Ev.m))
    \cup Viol("LS_MONOTONE", (st.k = "ls" /\ <<st.y, st.m>> # <<2100, 12>>) => Ev.v >= st.v)
  [] Ev.k = "last" ->      \* get_last_leap_second(): the day the last leap second was inserted, and the count
         LET e == IERS[Len(IERS)] IN
         Viol("LAST_LEAP", /\ Ev.v = Len(IERS)
                           /\ <<Ev.y, Ev.m, Ev.d>> = (IF e[2] = 1 THEN <<e[1] - 1, 12, 31>> ELSE <<e[1], 6, 30>>))
  [] Ev.k = "utc" ->
         Viol("UTC_OFFSET", Within(ObsMs(Ev), FromInt(OffsetMs(Ev.y, Ev.m)), MsTol))
    \cup Viol("UTC_READBACK", ReadBackOK(Ev))
    \* enforced everywhere, also in the last minute of a leap-second day (known finding: one second early there)
    \cup Viol("UTC_READBACK_COARSE", FieldsOK(Ev) /\ Within(Instant(Ev.rb[1], Ev.rb[2], Ev.rb[3], Ev.rb[4], Ev.rb[5], Ev.rbs),
                                                           Instant(Ev.y, Ev.m, Ev.d, Ev.h, Ev.mi, FromInt(Ev.s)), Dec(15, 1)))
  [] Ev.k = "ovr" ->
         Viol("OVERRIDE_OFFSET", Within(ObsMs(Ev), FromInt(OverrideMs(Ev.y, Ev.kk)), MsTol))
    \cup Viol("OVERRIDE_READBACK", ReadBackOK(Ev))
  [] Ev.k = "dt" ->
         Viol("DT_NEAR_UTC", (Ev.y \in 1972..2018) =>
                 Within(Ev.dt, Add(Dec(42184, 3), FromInt(Cum(Ev.y, Ev.m))), Dec(35, 1)))
    \cup Viol("DT_JOINT", (st.k = "dt" /\ Ev.m = 1 /\ Ev.y \in JointYears /\ st.y = Ev.y - 1 /\ st.m = 12)
                 => Lt(Abs(Sub(Ev.dt, st.dt)), One))
    \* wherever the joints of the implementation lie: no jump of a second or more between ANY two consecutive months of
    \* 1600..2149, where every segment is a smooth function of the decimal year (before 1600 the segments are functions of
    \* the year alone or change by more than a second per month by themselves)
    \cup Viol("DT_NO_JUMP", (st.k = "dt" /\ Ev.y >= 1600 /\ Ev.y <= 2149
                              /\ ((st.y = Ev.y /\ Ev.m = st.m + 1) \/ (st.y = Ev.y - 1 /\ st.m = 12 /\ Ev.m = 1)))
                 => Lt(Abs(Sub(Ev.dt, st.dt)), One))
  [] OTHER -> {"UNKNOWN_KIND"}

Advance == [k |-> Ev.k, y |-> Ev.y, m |-> Ev.m,
            v |-> IF Ev.k = "ls" THEN Ev.v ELSE 0,
            dt |-> IF Ev.k = "dt" THEN Ev.dt ELSE Zero]

Init == TraceInit([k |-> "", y |-> 0, m |-> 0, v |-> 0, dt |-> Zero])
Next == StepWith(Verdict, Advance)
Spec == Init /\ [][Next]_<<l, st>>
=============================================================================
