---------------------------- MODULE Apa_Calendar ----------------------------
(***************************************************************************)
(* Unbounded-years complement of MC_Calendar, for Apalache (symbolic).     *)
(*                                                                         *)
(* MC_Calendar walks the day chain with TLC over -4712..6000.  Here the    *)
(* same chain (Calendar!NextDay) is shown to preserve an inductive         *)
(* invariant for EVERY year >= -4712:                                      *)
(*                                                                         *)
(*   IndInv:  the state is a civil date, its day-of-year equals Meeus'     *)
(*            formula (calendar's own leap rule, ten dropped days), its    *)
(*            day number equals the closed form for 1 January plus the     *)
(*            day of year, its weekday is (jdn + 1) mod 7.                 *)
(*                                                                         *)
(*   apalache-mc check --init=Init    --inv=IndInv --length=0   (base)     *)
(*   apalache-mc check --init=IndInit --inv=IndInv --length=1   (step)     *)
(*   apalache-mc check --init=IndInit --inv=Fwd    --length=0   (IndInv => Meeus 7.1 as coded = chain)     *)
(*   ... GregorianDow, LeapRule likewise.                                  *)
(*                                                                         *)
(* IndInit describes an arbitrary state satisfying IndInv (the existential *)
(* over Int is what makes the years unbounded).  Bwd (the inverse recipe   *)
(* of Epoch.get_date) did not terminate within 15 minutes in Z3 and is     *)
(* claimed only for the TLC range.                                         *)
(***************************************************************************)
EXTENDS Calendar
VARIABLE
  \* @type: { y: Int, m: Int, d: Int, jdn: Int, doy: Int, dow: Int };
  cal

IndInv ==
  /\ cal.y >= YMinDef
  /\ IsCivil(cal.y, cal.m, cal.d)
  /\ cal.doy = DoyFormula(cal.y, cal.m, cal.d)
  /\ cal.jdn = Jan1JDN(cal.y) + cal.doy - 1
  /\ cal.dow = (cal.jdn + 1) % 7

IndInit ==
  \E yy \in Int : \E mm \in 1..12 : \E dd \in 1..31 :
    /\ yy >= YMinDef
    /\ IsCivil(yy, mm, dd)
    /\ cal = [y |-> yy, m |-> mm, d |-> dd, jdn |-> Jan1JDN(yy) + DoyFormula(yy, mm, dd) - 1,
              doy |-> DoyFormula(yy, mm, dd), dow |-> (Jan1JDN(yy) + DoyFormula(yy, mm, dd)) % 7]
Init == cal = Start
Next == cal' = NextDay(cal)
Fwd == InvFwd(cal)
Bwd == InvBwd(cal)
GregorianDow == InvGregDow(cal)
LeapRule == InvLeapCode(cal)
YearEnd == InvYearEnd(cal)
Jan1Closed == InvJan1(cal)
=============================================================================
