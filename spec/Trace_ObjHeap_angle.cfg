SPECIFICATION Spec
CONSTANT Kind = "angle"
POSTCONDITION Consumed
CHECK_DEADLOCK FALSE
