----------------------------- MODULE Trace_Sexa -----------------------------
(***************************************************************************)
(* C04 conformance.                                                        *)
(*  "tup": v (Fix degrees), ra 0/1, de mi (ints, -1 = not an integer),     *)
(*         se (Fix), sg (int)          from dms_tuple() / ra_tuple()       *)
(*  vs = sign of the value (-1, 0, 1), transported apart from v            *)
(*  "str": v, ra, fancy 0/1, nd, ok 0/1 (string tokenised), F = 3 fields   *)
(*         [neg, a, p] from dms_str() / ra_str(); tight = 1: a value below *)
(*         one degree / hour, judged with a slack of 2e-15 instead of 1e-9 *)
(* For ra = 1 the value compared is v / 15 (hours), modulo 24.             *)
(***************************************************************************)
EXTENDS TraceKit, Sexagesimal

Unit(ev) == IF ev.ra = 1 THEN 24 ELSE 360
Val(ev)  == IF ev.ra = 1 THEN DivInt(ev.v, 15) ELSE ev.v

Verdict ==
  CASE Ev.k = "tup" ->
       Viol("TUPLE_CANONICAL", TupleOK(Val(Ev), Ev.de, Ev.mi, Ev.se, Ev.sg, Unit(Ev)))
  [] Ev.k = "str" ->
       IF Ev.ok = 0 THEN {"STR_FORMAT"}
       ELSE Viol("STR_NO60", No60(Ev.F))
       \cup Viol("STR_FIELDS", Canonical(Ev.F, Unit(Ev)))
       \cup Viol("STR_SIGN_ONCE", SignOnce(Ev.vs = -1, Ev.F))
       \cup Viol("STR_READBACK", ReadBackTol(Val(Ev), Ev.nd, Ev.F, Unit(Ev), IF Ev.tight = 1 THEN Dec(2, 15) ELSE Tol9))
  [] OTHER -> {"UNKNOWN_KIND"}

Init == TraceInit(0)
Next == StepWith(Verdict, 0)
Spec == Init /\ [][Next]_<<l, st>>
=============================================================================
