--------------------------- MODULE Trace_Sidereal ---------------------------
(***************************************************************************)
(* C16, sidereal-time clauses.  The IAU 1982 expression for Greenwich     *)
(* mean sidereal time is evaluated HERE, in exact fixed point (Fix), from *)
(* the logged JDE, and compared with what Epoch.mean_sidereal_time()      *)
(* returned.  Event fields (all Fix): jde, mst, mst1 (one day later),     *)
(* ast (apparent), dpsi (nutation in longitude, degrees, from the         *)
(* library), ceps (cos of the true obliquity: witness from the harness).  *)
(***************************************************************************)
EXTENDS TraceKit, Fix

Half == Dec(5, 1)
J2000 == FromInt(2451545)
\* seconds of sidereal time at 0h UT:  24110.54841 + 8640184.812866 T + 0.093104 T^2 - 6.2e-6 T^3
C0 == Add(FromInt(24110), Dec(54841, 5))
C1 == Add(FromInt(8640184), Dec(812866, 6))
C2 == Dec(93104, 6)
C3 == Neg(Dec(62, 7))
Rate == Add(One, Dec(273790935, 11))          \* 1.00273790935 sidereal days per day

\* preceding 0h UT:  floor(jde - 1/2) + 1/2
Jd0(jde) == Add(Floor(Sub(jde, Half)), Half)
GMST(jde) ==                                  \* in days, reduced to [0, 1)
  LET j0 == Jd0(jde)
      T  == DivInt(Sub(j0, J2000), 36525)
      s  == Add(C0, Mul(T, Add(C1, Mul(T, Add(C2, Mul(T, C3))))))
      th == DivInt(s, 86400)
  IN Mod(Add(th, Mul(Rate, Sub(jde, j0))), 1)

Tol7  == Dec(1, 7)
Tol8  == Dec(1, 8)
Tol11 == Dec(1, 11)
DayAdvance == Dec(273790935, 11)              \* fractional part of the daily advance

Verdict(ev) ==
     Viol("WF", IsFix(ev.jde) /\ IsFix(ev.mst) /\ IsFix(ev.ast) /\ IsFix(ev.mst1))
\cup Viol("MST_RANGE", Ge(ev.mst, Zero) /\ Lt(ev.mst, One) /\ Ge(ev.mst1, Zero) /\ Lt(ev.mst1, One))
\cup Viol("MST_IAU1982", WithinMod(ev.mst, GMST(ev.jde), 1, Tol7))
\cup Viol("MST_RATE", WithinMod(Sub(ev.mst1, ev.mst), DayAdvance, 1, Tol8))
\cup Viol("AST_EQEQ",
       LET eqeq == DivInt(DivInt(Mul(MulInt(ev.dpsi, 3600), ev.ceps), 15), 86400) IN
       Within(Sub(ev.ast, ev.mst), eqeq, Tol11))
\cup Viol("EQEQ_BOUND", Lt(Abs(Sub(ev.ast, ev.mst)), DivInt(Dec(12, 1), 86400)))     \* under 1.2 s
\cup Viol("EQEQ_FAR",   Lt(Abs(Sub(ev.ast, ev.mst)), DivInt(Dec(13, 1), 86400)))     \* 1.3 s: see KNOWN_FINDINGS

Init == TraceInit(0)
Next == StepWith(Verdict(Ev), 0)
Spec == Init /\ [][Next]_<<l, st>>
=============================================================================
