SPECIFICATION Spec
INVARIANT ClampRefines
INVARIANT Contained
CHECK_DEADLOCK FALSE
