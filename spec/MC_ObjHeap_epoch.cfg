SPECIFICATION Spec
CONSTANT Kind = "epoch"
INVARIANT Canonical
INVARIANT Emit
PROPERTY ObjectsImmutable
PROPERTY OnlyDstRebound
CHECK_DEADLOCK FALSE
