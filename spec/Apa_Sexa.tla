------------------------------ MODULE Apa_Sexa ------------------------------
(***************************************************************************)
(* Unbounded complement of MC_Sexa, for Apalache (symbolic): the carry     *)
(* model of dms_str meets the print law - no 60 in minutes or seconds,     *)
(* degrees below 360, read-back within half a unit of the last decimal     *)
(* modulo a full turn - for EVERY non-negative value k (in fine units of   *)
(* 10^-(n+1) arcsec) below one turn and every n = 0..3, not only the carry *)
(* windows TLC enumerates.                                                 *)
(***************************************************************************)
EXTENDS SexaCarry
VARIABLES
  \* @type: Int;
  k,
  \* @type: Int;
  n
AnyValue == \E nn \in 0..3 : \E kk \in Int :
              /\ kk >= 0 /\ kk < 360 * 3600 * 10 * Pow(nn)
              /\ k = kk /\ n = nn
Next == UNCHANGED <<k, n>>
PrintLaw == ModelOK(k, n)
\* planted falsehood for the self-test: "a carry never reaches the degrees" is refuted by 0d 59' 59.96" printed with n = 1
NoDegreeCarry == ModelPrint(k, n).d = k \div (3600 * 10 * Pow(n))
=============================================================================
