---------------------------- MODULE LeapSeconds ----------------------------
(***************************************************************************)
(* UTC <-> TT reference semantics (C10).  IERS is the list of months on   *)
(* whose first day (0h UTC) a new TAI-UTC value took effect because a     *)
(* leap second had been inserted at the end of the preceding day          *)
(* (IERS Bulletin C, 1972-07-01 .. 2017-01-01: 27 positive leap seconds). *)
(***************************************************************************)
EXTENDS Integers, Sequences, FiniteSets

IERS == << <<1972, 7>>, <<1973, 1>>, <<1974, 1>>, <<1975, 1>>, <<1976, 1>>, <<1977, 1>>,
           <<1978, 1>>, <<1979, 1>>, <<1980, 1>>, <<1981, 7>>, <<1982, 7>>, <<1983, 7>>,
           <<1985, 7>>, <<1988, 1>>, <<1990, 1>>, <<1991, 1>>, <<1992, 7>>, <<1993, 7>>,
           <<1994, 7>>, <<1996, 1>>, <<1997, 7>>, <<1999, 1>>, <<2006, 1>>, <<2009, 1>>,
           <<2012, 7>>, <<2015, 7>>, <<2017, 1>> >>

OnOrBefore(a, y, m) == a[1] < y \/ (a[1] = y /\ a[2] <= m)
\* leap seconds inserted before any instant of month (y, m)
Cum(y, m) == Cardinality({i \in 1..Len(IERS) : OnOrBefore(IERS[i], y, m)})
\* TT - UTC in milliseconds for a civil date in month (y, m); nothing before 1972
OffsetMs(y, m) == IF y >= 1972 THEN 32184 + 10000 + 1000 * Cum(y, m) ELSE 0
OverrideMs(y, k) == IF y >= 1972 THEN 32184 + 10000 + 1000 * k ELSE 0
\* months that END with a leap second (the civil day before an IERS entry)
EndsWithLeap(y, m) == \E i \in 1..Len(IERS) :
                         IF IERS[i][2] = 1 THEN (y = IERS[i][1] - 1 /\ m = 12)
                                           ELSE (y = IERS[i][1] /\ m = IERS[i][2] - 1)

\* ---- transcription of Epoch.leap_seconds (refinement obligation) ------------
\* table keys times 2 (1972.5 -> 3945), values 1..27 in order
Keys2 == [i \in 1..Len(IERS) |-> 2 * IERS[i][1] + (IF IERS[i][2] = 7 THEN 1 ELSE 0)]
LeapCode(y, m) ==
  \* (year + month/12) <= first key   <=>   12*year + month <= 6*key2
  IF 12 * y + m <= 6 * Keys2[1] THEN 0
  ELSE IF 12 * y + m > 6 * Keys2[Len(IERS)] THEN Len(IERS)
  ELSE LET ly4 == IF m <= 6 THEN 4 * y + 1 ELSE 4 * y + 3       \* lyear * 4
           \* number of keys with lyear > key   <=>  ly4 > 2*key2
           n == Cardinality({i \in 1..Len(IERS) : ly4 > 2 * Keys2[i]})
       IN n
=============================================================================
