------------------------------ MODULE Trace_Moon ------------------------------
(***************************************************************************)
(* C15 conformance: lunar position (daily samples in order) and the four   *)
(* lunar event finders (protocol of Finders.tla + event reality).          *)
(*  "pos": t (Fix JDE); lon lat (deg), dist (km), par (parallax, deg) from *)
(*         Moon.geocentric_ecliptical_pos; sinpar = sin(par) (witness);    *)
(*         k = illuminated_fraction_disk; node / peri = mean ascending     *)
(*         node / mean perigee longitudes; um us = unit vectors of Moon    *)
(*         and Sun (witness from the library's apparent positions), rs =   *)
(*         Sun distance in km, ws = witness for |S - M| (km)               *)
(*  "q":   finder query (as in Trace_Finders), one (finder, target) per    *)
(*         run of events, queries in increasing order                      *)
(*  "ev":  event reality: phase: dl = Moon - Sun apparent longitude (deg), *)
(*         tgt in {0, 90, 180, 270}; "dist"/"decl": five samples at        *)
(*         r, r+-0.25 d, r+-0.5 d; "node": lat at r; rep = reported value  *)
(***************************************************************************)
EXTENDS TraceKit, Finders

Dot(u, v) == Add(Add(Mul(u[1], v[1]), Mul(u[2], v[2])), Mul(u[3], v[3]))
Unit(u) == Within(Dot(u, u), One, Dec(1, 12))

VerdictPos ==
     Viol("MOON_DISTANCE", Ge(Ev.dist, FromInt(356000)) /\ Le(Ev.dist, FromInt(407000)))
\cup Viol("MOON_LATITUDE", Le(Abs(Ev.lat), Dec(535, 2)))
\cup Viol("MOON_PARALLAX", Within(Mul(Ev.sinpar, Ev.dist), Add(FromInt(6378), Dec(14, 2)), Dec(1, 3)))
\cup Viol("MOON_ILLUMINATED_RANGE", Ge(Ev.kf, Zero) /\ Le(Ev.kf, One))
\cup Viol("WITNESS", Unit(Ev.um) /\ Unit(Ev.us) /\ Ge(Ev.ws, Zero))
\cup (\* (2k - 1) |S - M| |M| = (S - M) . (-M)   with S = rs us, M = dist um, |S - M| = ws (verified: ws^2 = |S - M|^2)
      LET dsm == Dot(Ev.us, Ev.um)
          sm2 == Sub(Add(Mul(Ev.rs, Ev.rs), Mul(Ev.dist, Ev.dist)), MulInt(Mul(Mul(Ev.rs, Ev.dist), dsm), 2))
          num == Sub(Mul(Ev.dist, Ev.dist), Mul(Mul(Ev.rs, Ev.dist), dsm))     \* (S - M).(-M) = |M|^2 - S.M
          cosi == Sub(MulInt(Ev.kf, 2), One)
      IN Viol("WITNESS", Le(Abs(Sub(Mul(Ev.ws, Ev.ws), sm2)), Mul(Dec(1, 9), sm2)))
    \cup Viol("MOON_ILLUMINATED_GEOMETRY",     \* |k - (1 + cos i)/2| <= 0.01  <=>  |cos_k - cos i| <= 0.02
              Le(Abs(Sub(Mul(Mul(cosi, Ev.ws), Ev.dist), num)), Mul(Dec(2, 2), Mul(Ev.ws, Ev.dist)))))
\* motion in longitude since the previous position (steps of a fraction of a day up to one day): 11.5 .. 15.6 deg/day
\cup (IF st.k = "pos" /\ Gt(Ev.t, st.t) /\ Le(Sub(Ev.t, st.t), Add(One, Dec(1, 6))) /\ ~Within(Sub(Ev.t, st.t), One, Dec(1, 6)) THEN
        LET adv == Mod(Sub(Ev.lon, st.lon), 360)  dt == Sub(Ev.t, st.t) IN
           Viol("MOON_MOTION_SHORT_STEP", Ge(adv, Sub(Mul(Dec(115, 1), dt), Dec(1, 6))) /\ Le(adv, Add(Mul(Dec(156, 1), dt), Dec(1, 6))))
      ELSE {})
\cup (IF st.k = "pos" /\ Within(Sub(Ev.t, st.t), One, Dec(1, 6)) THEN
        LET adv == Mod(Sub(Ev.lon, st.lon), 360) IN
           Viol("MOON_DAILY_MOTION", Ge(adv, Dec(115, 1)) /\ Le(adv, Dec(156, 1)))
      \cup Viol("NODE_SECULAR_RATE", WithinMod(Sub(Ev.node, st.node), Neg(Dec(529539, 7)), 360, Dec(1, 3)))
      \cup Viol("PERIGEE_SECULAR_RATE", WithinMod(Sub(Ev.peri, st.peri), Dec(1114041, 7), 360, Dec(1, 3)))
      ELSE {})

VerdictQ ==
  LET c == Finder(Ev.f) IN
  Viol("FINDER_TOTAL", Ev.oc = "ok")
  \cup (IF Ev.oc # "ok" THEN {} ELSE
        Viol("WITHIN_1_6_MONTHS", Le(Abs(Sub(Ev.r, Ev.q)), Ratio(c.P, 1600)))
   \cup Viol("WITHIN_2_MONTHS", Le(Abs(Sub(Ev.r, Ev.q)), Ratio(c.P, 2000)))        \* enforced everywhere (see KNOWN_FINDINGS)
   \cup (IF st.k = "q" /\ st.f = Ev.f /\ st.v = Ev.v /\ Le(st.q, Ev.q) /\ Lt(Sub(Ev.q, st.q), DivInt(c.P, 2)) THEN
             Viol("NEVER_BACKWARDS", NeverBackwards(c, st.r, Ev.r))
        \cup Viol("ONE_PERIOD_APART", ~NeverBackwards(c, st.r, Ev.r) \/ OnePeriodApart(c, st.r, Ev.r))
        \cup Viol("SAME_EVENT_SAME_INSTANT", StableOK(c, st.r, Ev.r))
         ELSE {}))

VerdictEv ==
  IF Ev.oc # "ok" THEN {"FINDER_TOTAL"}
  ELSE CASE Ev.kind = "phase" -> Viol("EVENT_PHASE_LONGITUDE", WithinMod(Ev.dl, FromInt(Ev.tgt), 360, Dec(6, 2)))
         [] Ev.kind = "dist" -> Viol("EVENT_DISTANCE_EXTREMAL", IF Ev.v = 1 THEN MinInside(Ev.s) ELSE MaxInside(Ev.s))
                           \* sharp: the slope changes sign between r - 0.25 d and r + 0.25 d (sl sr = short central differences there)
                           \cup Viol("EVENT_DISTANCE_WITHIN_TOL", IF Ev.v = 1 THEN MinWithinTol(Ev.sl, Ev.sr) ELSE MaxWithinTol(Ev.sl, Ev.sr))
         [] Ev.kind = "node" -> Viol("EVENT_LATITUDE_ZERO", Le(Abs(Ev.s[3]), Dec(2, 2)))
                           \cup Viol("EVENT_NODE_DIRECTION", IF Ev.v = 1 THEN Lt(Ev.s[2], Ev.s[4]) ELSE Gt(Ev.s[2], Ev.s[4]))
         [] Ev.kind = "decl" -> Viol("EVENT_DECLINATION_EXTREMAL", IF Ev.v = 1 THEN MaxInside(Ev.s) ELSE MinInside(Ev.s))
                           \cup Viol("EVENT_DECLINATION_WITHIN_TOL", IF Ev.v = 1 THEN MaxWithinTol(Ev.sl, Ev.sr) ELSE MinWithinTol(Ev.sl, Ev.sr))
                           \cup Viol("EVENT_DECLINATION_REPORTED", Within(Ev.rep, Ev.s[3], Dec(15, 2)))
         [] OTHER -> {"UNKNOWN_KIND"}

Verdict == CASE Ev.k = "pos" -> VerdictPos [] Ev.k = "q" -> VerdictQ [] Ev.k = "ev" -> VerdictEv [] OTHER -> {"UNKNOWN_KIND"}

Blank == [k |-> "", t |-> Zero, lon |-> Zero, node |-> Zero, peri |-> Zero, f |-> "", v |-> 0, q |-> Zero, r |-> Zero]
Advance ==
  CASE Ev.k = "pos" -> [Blank EXCEPT !.k = "pos", !.t = Ev.t, !.lon = Ev.lon, !.node = Ev.node, !.peri = Ev.peri]
    [] Ev.k = "q" /\ Ev.oc = "ok" -> [Blank EXCEPT !.k = "q", !.f = Ev.f, !.v = Ev.v, !.q = Ev.q, !.r = Ev.r]
    [] OTHER -> Blank
Init == TraceInit(Blank)
Next == StepWith(Verdict, Advance)
Spec == Init /\ [][Next]_<<l, st>>
=============================================================================
