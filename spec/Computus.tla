----------------------------- MODULE Computus -----------------------------
(***************************************************************************)
(* Reference semantics for C19: Easter by the tabular (epact) definition  *)
(* of the Computus, the arithmetic Hebrew calendar (molad of Tishri and   *)
(* the four dehiyyot), and the arithmetic Islamic calendar (30-year       *)
(* cycle, epoch 16 July 622 Julian = JDN 1948440).  Everything is integer *)
(* arithmetic on top of the civil calendar of Calendar.tla.               *)
(***************************************************************************)
EXTENDS Calendar

\* JDN of civil date (yy, mm, dd), through the closed form for 1 January
\* (MC_Calendar proves Jan1JDN and DoyFormula equal to the chain)
JDNOf(yy, mm, dd) == Jan1JDN(yy) + DoyFormula(yy, mm, dd) - 1
DowOf(yy, mm, dd) == (JDNOf(yy, mm, dd) + 1) % 7            \* 0 = Sunday
\* civil date of a JDN (MeeusInv is proved equal to the chain by MC_Calendar)
CivilOf(j) == MeeusInv(j)

\* ---------------------------------------------------------------------------
\* Easter
\* ---------------------------------------------------------------------------
\* Gregorian: golden number, solar and lunar corrections, epact, paschal full
\* moon on March N, then the Sunday strictly after it (tabular definition).
GregEasterMarchDay(Y) ==
  LET G  == (Y % 19) + 1
      C  == (Y \div 100) + 1
      X  == (3 * C) \div 4 - 12                 \* solar correction
      Z  == (8 * C + 5) \div 25 - 5             \* lunar correction
      E0 == (11 * G + 20 + Z - X) % 30
      E  == IF (E0 = 25 /\ G > 11) \/ E0 = 24 THEN E0 + 1 ELSE E0
      N0 == 44 - E
      N  == IF N0 < 21 THEN N0 + 30 ELSE N0     \* paschal full moon = March N
      w  == DowOf(Y, 3, 1)                      \* weekday of 1 March
      wN == (w + N - 1) % 7                     \* weekday of March N
  IN N + (7 - wN)                               \* next Sunday, strictly after

\* Julian: the 19-year table of paschal full moons (day of March)
\* @type: Seq(Int);
JulianPFM == <<36, 25, 44, 33, 22, 41, 30, 49, 38, 27, 46, 35, 24, 43, 32, 21, 40, 29, 48>>
JulEasterMarchDay(Y) ==
  LET G  == (Y % 19) + 1
      N  == JulianPFM[G]
      w  == DowOf(Y, 3, 1)
      wN == (w + N - 1) % 7
  IN N + (7 - wN)

EasterMarchDay(Y) == IF Y >= 1583 THEN GregEasterMarchDay(Y) ELSE JulEasterMarchDay(Y)
\* @type: (Int) => <<Int, Int>>;
EasterDef(Y) == LET n == EasterMarchDay(Y) IN IF n > 31 THEN <<4, n - 31>> ELSE <<3, n>>

\* transcription of Epoch.easter (refinement obligation, MC_Computus)
\* @type: (Int) => <<Int, Int>>;
EasterCode(Y) ==
  IF Y >= 1583 THEN
    LET a == Y % 19   b == Y \div 100   c == Y % 100   d == b \div 4   e == b % 4
        f == (b + 8) \div 25   g == (b - f + 1) \div 3
        h == (19 * a + b - d - g + 15) % 30
        i == c \div 4   k == c % 4
        ll == (32 + 2 * (e + i) - h - k) % 7
        m == (a + 11 * h + 22 * ll) \div 451
        n == (h + ll - 7 * m + 114) \div 31
        p == (h + ll - 7 * m + 114) % 31
    IN <<n, p + 1>>
  ELSE
    LET a == Y % 4   b == Y % 7   c == Y % 19
        d == (19 * c + 15) % 30
        e == (2 * a + 4 * b - d + 34) % 7
        f == (d + e + 114) \div 31
        g == (d + e + 114) % 31
    IN <<f, g + 1>>

\* ---------------------------------------------------------------------------
\* Arithmetic Hebrew calendar
\* ---------------------------------------------------------------------------
HebLeap(H) == (7 * H + 1) % 19 < 7
\* days elapsed from the (Sunday-numbered) Hebrew day count to 1 Tishri of year H
HebElapsed(H) ==
  LET mo == 235 * ((H - 1) \div 19) + 12 * ((H - 1) % 19) + (7 * ((H - 1) % 19) + 1) \div 19
      parts == 204 + 793 * (mo % 1080)
      hours == 5 + 12 * mo + 793 * (mo \div 1080) + parts \div 1080
      day   == 1 + 29 * mo + hours \div 24
      p     == 1080 * (hours % 24) + (parts % 1080)
      alt   == IF \/ p >= 19440                                         \* molad zaken
                  \/ (day % 7 = 2 /\ p >= 9924 /\ ~HebLeap(H))           \* ga-ta-ra-d
                  \/ (day % 7 = 1 /\ p >= 16789 /\ HebLeap(H - 1))       \* be-tu-te-k-pa-t
               THEN day + 1 ELSE day
  IN IF alt % 7 \in {0, 3, 5} THEN alt + 1 ELSE alt                     \* lo ADU rosh
\* JDN of 1 Tishri of Hebrew year H: elapsed - 1373428 is the R.D. day number,
\* R.D. + 1721425 is the Julian Day Number
RoshHashanahJDN(H) == HebElapsed(H) - 1373428 + 1721425
HebYearLen(H) == RoshHashanahJDN(H + 1) - RoshHashanahJDN(H)
\* Pesach (15 Nisan) in civil year X: 163 days before 1 Tishri of A.M. X + 3761
PesachJDN(X) == RoshHashanahJDN(X + 3761) - 163
\* @type: (Int) => <<Int, Int>>;
PesachDef(X) == LET c == CivilOf(PesachJDN(X)) IN <<c[2], c[3]>>
PesachYearOK(X) == CivilOf(PesachJDN(X))[1] = X
PesachDow(X) == (PesachJDN(X) + 1) % 7

\* ---------------------------------------------------------------------------
\* Arithmetic Islamic calendar
\* ---------------------------------------------------------------------------
IslEpochJDN == 1948440                     \* 1 Muharram AH 1 = Friday 16 July 622 (Julian)
IslLeap(h) == (h % 30) \in {2, 5, 7, 10, 13, 16, 18, 21, 24, 26, 29}
IslMLen(h, m) == IF m % 2 = 1 THEN 30 ELSE IF m = 12 /\ IslLeap(h) THEN 30 ELSE 29
IslYLen(h) == IF IslLeap(h) THEN 355 ELSE 354
IslStart == [y |-> 1, m |-> 1, d |-> 1, jdn |-> IslEpochJDN]
\* @type: ({ y: Int, m: Int, d: Int, jdn: Int }) => { y: Int, m: Int, d: Int, jdn: Int };
IslNext(i) ==
  IF i.d < IslMLen(i.y, i.m) THEN [i EXCEPT !.d = i.d + 1, !.jdn = i.jdn + 1]
  ELSE IF i.m < 12 THEN [i EXCEPT !.m = i.m + 1, !.d = 1, !.jdn = i.jdn + 1]
  ELSE [y |-> i.y + 1, m |-> 1, d |-> 1, jdn |-> i.jdn + 1]
\* closed form: JDN of 1 Muharram of year h
IslNewYearJDN(h) == IslEpochJDN + 354 * (h - 1) + (11 * h + 3) \div 30
\* closed form: JDN of Islamic date (h, m, d)
IslJDN(h, m, d) == IslNewYearJDN(h) + 29 * (m - 1) + m \div 2 + d - 1
=============================================================================
