------------------------------- MODULE Finders -------------------------------
(***************************************************************************)
(* Event-finder protocol (C13; reused for the lunar finders of C15).       *)
(* A finder maps a query instant q to the instant r of the nearest event   *)
(* of its kind.  Along a trace of queries in increasing order the results  *)
(* must never move backwards, consecutive distinct results must be one     *)
(* period apart (within the period's natural variation: no event skipped  *)
(* or repeated) and every result lies within one period of its query.      *)
(*                                                                         *)
(* Finder(f) gives the constants of finder f:                              *)
(*   P      mean synodic / orbital period in days (Meeus, tables 36.A/38.A)*)
(*   lo hi  admissible ratio (per mille) gap / P between consecutive events*)
(*   acc    accuracy of the series in days (1 Mercury-Mars, 2 beyond)      *)
(*   qdep   the result also depends on the query epoch (node passages use  *)
(*          the orbital elements of the query date): results for one event *)
(*          may differ by up to acc                                        *)
(*   ranged refuses queries outside the years -2000..4000 with ValueError  *)
(***************************************************************************)
EXTENDS Fix

FinderNames == {"Mercury.inferior_conjunction", "Mercury.superior_conjunction", "Mercury.eastern_elongation", "Mercury.western_elongation", "Mercury.station_longitude_1", "Mercury.station_longitude_2", "Venus.inferior_conjunction", "Venus.superior_conjunction", "Venus.eastern_elongation", "Venus.western_elongation", "Venus.station_longitude_1", "Venus.station_longitude_2", "Mars.conjunction", "Mars.opposition", "Mars.station_longitude_1", "Mars.station_longitude_2", "Jupiter.conjunction", "Jupiter.opposition", "Jupiter.station_longitude_1", "Jupiter.station_longitude_2", "Saturn.conjunction", "Saturn.opposition", "Saturn.station_longitude_1", "Saturn.station_longitude_2", "Uranus.conjunction", "Uranus.opposition", "Neptune.conjunction", "Neptune.opposition", "Mercury.perihelion_aphelion", "Mercury.passage_nodes", "Venus.perihelion_aphelion", "Venus.passage_nodes", "Earth.perihelion_aphelion", "Earth.passage_nodes", "Mars.perihelion_aphelion", "Mars.passage_nodes", "Jupiter.perihelion_aphelion", "Jupiter.passage_nodes", "Saturn.perihelion_aphelion", "Saturn.passage_nodes", "Uranus.perihelion_aphelion", "Uranus.passage_nodes", "Moon.moon_phase", "Moon.moon_perigee_apogee", "Moon.moon_passage_nodes", "Moon.moon_maximum_declination"}
FinderRow(f) ==
  CASE
     f = "Mercury.inferior_conjunction" -> [P |-> Add(FromInt(115), Dec(87750, 5)), lo |-> 823, hi |-> 1234, acc |-> 1, qdep |-> FALSE, ranged |-> TRUE]
  [] f = "Mercury.superior_conjunction" -> [P |-> Add(FromInt(115), Dec(87750, 5)), lo |-> 803, hi |-> 1276, acc |-> 1, qdep |-> FALSE, ranged |-> TRUE]
  [] f = "Mercury.eastern_elongation" -> [P |-> Add(FromInt(115), Dec(87750, 5)), lo |-> 919, hi |-> 1079, acc |-> 1, qdep |-> FALSE, ranged |-> TRUE]
  [] f = "Mercury.western_elongation" -> [P |-> Add(FromInt(115), Dec(87750, 5)), lo |-> 904, hi |-> 1082, acc |-> 1, qdep |-> FALSE, ranged |-> TRUE]
  [] f = "Mercury.station_longitude_1" -> [P |-> Add(FromInt(115), Dec(87750, 5)), lo |-> 869, hi |-> 1164, acc |-> 1, qdep |-> FALSE, ranged |-> TRUE]
  [] f = "Mercury.station_longitude_2" -> [P |-> Add(FromInt(115), Dec(87750, 5)), lo |-> 866, hi |-> 1173, acc |-> 1, qdep |-> FALSE, ranged |-> TRUE]
  [] f = "Venus.inferior_conjunction" -> [P |-> Add(FromInt(583), Dec(92140, 5)), lo |-> 984, hi |-> 1015, acc |-> 1, qdep |-> FALSE, ranged |-> TRUE]
  [] f = "Venus.superior_conjunction" -> [P |-> Add(FromInt(583), Dec(92140, 5)), lo |-> 968, hi |-> 1030, acc |-> 1, qdep |-> FALSE, ranged |-> TRUE]
  [] f = "Venus.eastern_elongation" -> [P |-> Add(FromInt(583), Dec(92140, 5)), lo |-> 990, hi |-> 1010, acc |-> 1, qdep |-> FALSE, ranged |-> TRUE]
  [] f = "Venus.western_elongation" -> [P |-> Add(FromInt(583), Dec(92140, 5)), lo |-> 990, hi |-> 1010, acc |-> 1, qdep |-> FALSE, ranged |-> TRUE]
  [] f = "Venus.station_longitude_1" -> [P |-> Add(FromInt(583), Dec(92140, 5)), lo |-> 983, hi |-> 1016, acc |-> 1, qdep |-> FALSE, ranged |-> TRUE]
  [] f = "Venus.station_longitude_2" -> [P |-> Add(FromInt(583), Dec(92140, 5)), lo |-> 985, hi |-> 1014, acc |-> 1, qdep |-> FALSE, ranged |-> TRUE]
  [] f = "Mars.conjunction" -> [P |-> Add(FromInt(779), Dec(93610, 5)), lo |-> 964, hi |-> 1063, acc |-> 1, qdep |-> FALSE, ranged |-> TRUE]
  [] f = "Mars.opposition" -> [P |-> Add(FromInt(779), Dec(93610, 5)), lo |-> 958, hi |-> 1080, acc |-> 1, qdep |-> FALSE, ranged |-> TRUE]
  [] f = "Mars.station_longitude_1" -> [P |-> Add(FromInt(779), Dec(93610, 5)), lo |-> 959, hi |-> 1079, acc |-> 1, qdep |-> FALSE, ranged |-> TRUE]
  [] f = "Mars.station_longitude_2" -> [P |-> Add(FromInt(779), Dec(93610, 5)), lo |-> 961, hi |-> 1076, acc |-> 1, qdep |-> FALSE, ranged |-> TRUE]
  [] f = "Jupiter.conjunction" -> [P |-> Add(FromInt(398), Dec(88400, 5)), lo |-> 981, hi |-> 1021, acc |-> 2, qdep |-> FALSE, ranged |-> TRUE]
  [] f = "Jupiter.opposition" -> [P |-> Add(FromInt(398), Dec(88400, 5)), lo |-> 981, hi |-> 1022, acc |-> 2, qdep |-> FALSE, ranged |-> TRUE]
  [] f = "Jupiter.station_longitude_1" -> [P |-> Add(FromInt(398), Dec(88400, 5)), lo |-> 980, hi |-> 1024, acc |-> 2, qdep |-> FALSE, ranged |-> TRUE]
  [] f = "Jupiter.station_longitude_2" -> [P |-> Add(FromInt(398), Dec(88400, 5)), lo |-> 984, hi |-> 1018, acc |-> 2, qdep |-> FALSE, ranged |-> TRUE]
  [] f = "Saturn.conjunction" -> [P |-> Add(FromInt(378), Dec(9190, 5)), lo |-> 989, hi |-> 1014, acc |-> 2, qdep |-> FALSE, ranged |-> TRUE]
  [] f = "Saturn.opposition" -> [P |-> Add(FromInt(378), Dec(9190, 5)), lo |-> 990, hi |-> 1010, acc |-> 2, qdep |-> FALSE, ranged |-> TRUE]
  [] f = "Saturn.station_longitude_1" -> [P |-> Add(FromInt(378), Dec(9190, 5)), lo |-> 990, hi |-> 1011, acc |-> 2, qdep |-> FALSE, ranged |-> TRUE]
  [] f = "Saturn.station_longitude_2" -> [P |-> Add(FromInt(378), Dec(9190, 5)), lo |-> 990, hi |-> 1010, acc |-> 2, qdep |-> FALSE, ranged |-> TRUE]
  [] f = "Uranus.conjunction" -> [P |-> Add(FromInt(369), Dec(65600, 5)), lo |-> 990, hi |-> 1010, acc |-> 2, qdep |-> FALSE, ranged |-> TRUE]
  [] f = "Uranus.opposition" -> [P |-> Add(FromInt(369), Dec(65600, 5)), lo |-> 990, hi |-> 1010, acc |-> 2, qdep |-> FALSE, ranged |-> TRUE]
  [] f = "Neptune.conjunction" -> [P |-> Add(FromInt(367), Dec(48670, 5)), lo |-> 990, hi |-> 1010, acc |-> 2, qdep |-> FALSE, ranged |-> TRUE]
  [] f = "Neptune.opposition" -> [P |-> Add(FromInt(367), Dec(48670, 5)), lo |-> 990, hi |-> 1010, acc |-> 2, qdep |-> FALSE, ranged |-> TRUE]
  [] f = "Mercury.perihelion_aphelion" -> [P |-> Add(FromInt(87), Dec(96935, 5)), lo |-> 990, hi |-> 1010, acc |-> 1, qdep |-> FALSE, ranged |-> FALSE]
  [] f = "Mercury.passage_nodes" -> [P |-> Add(FromInt(87), Dec(96935, 5)), lo |-> 990, hi |-> 1010, acc |-> 1, qdep |-> TRUE, ranged |-> FALSE]
  [] f = "Venus.perihelion_aphelion" -> [P |-> Add(FromInt(224), Dec(70080, 5)), lo |-> 990, hi |-> 1010, acc |-> 1, qdep |-> FALSE, ranged |-> FALSE]
  [] f = "Venus.passage_nodes" -> [P |-> Add(FromInt(224), Dec(70080, 5)), lo |-> 990, hi |-> 1010, acc |-> 1, qdep |-> TRUE, ranged |-> FALSE]
  [] f = "Earth.perihelion_aphelion" -> [P |-> Add(FromInt(365), Dec(25964, 5)), lo |-> 986, hi |-> 1017, acc |-> 1, qdep |-> FALSE, ranged |-> FALSE]
  [] f = "Earth.passage_nodes" -> [P |-> Add(FromInt(365), Dec(25964, 5)), lo |-> 986, hi |-> 1016, acc |-> 1, qdep |-> TRUE, ranged |-> FALSE]
  [] f = "Mars.perihelion_aphelion" -> [P |-> Add(FromInt(686), Dec(99579, 5)), lo |-> 990, hi |-> 1010, acc |-> 1, qdep |-> FALSE, ranged |-> FALSE]
  [] f = "Mars.passage_nodes" -> [P |-> Add(FromInt(686), Dec(99579, 5)), lo |-> 990, hi |-> 1010, acc |-> 1, qdep |-> TRUE, ranged |-> FALSE]
  [] f = "Jupiter.perihelion_aphelion" -> [P |-> Add(FromInt(4332), Dec(89700, 5)), lo |-> 970, hi |-> 1030, acc |-> 2, qdep |-> FALSE, ranged |-> FALSE]
  [] f = "Jupiter.passage_nodes" -> [P |-> Add(FromInt(4332), Dec(89700, 5)), lo |-> 970, hi |-> 1030, acc |-> 2, qdep |-> TRUE, ranged |-> FALSE]
  [] f = "Saturn.perihelion_aphelion" -> [P |-> Add(FromInt(10764), Dec(21680, 5)), lo |-> 970, hi |-> 1030, acc |-> 2, qdep |-> FALSE, ranged |-> FALSE]
  [] f = "Saturn.passage_nodes" -> [P |-> Add(FromInt(10764), Dec(21680, 5)), lo |-> 970, hi |-> 1030, acc |-> 2, qdep |-> TRUE, ranged |-> FALSE]
  [] f = "Uranus.perihelion_aphelion" -> [P |-> Add(FromInt(30694), Dec(87670, 5)), lo |-> 990, hi |-> 1011, acc |-> 2, qdep |-> FALSE, ranged |-> FALSE]
  [] f = "Uranus.passage_nodes" -> [P |-> Add(FromInt(30694), Dec(87670, 5)), lo |-> 990, hi |-> 1011, acc |-> 2, qdep |-> TRUE, ranged |-> FALSE]
  [] f = "Moon.moon_phase" -> [P |-> Add(FromInt(29), Dec(53059, 5)), lo |-> 980, hi |-> 1020, acc |-> 1, qdep |-> FALSE, ranged |-> FALSE]
  [] f = "Moon.moon_perigee_apogee" -> [P |-> Add(FromInt(27), Dec(55455, 5)), lo |-> 790, hi |-> 1075, acc |-> 1, qdep |-> FALSE, ranged |-> FALSE]
  [] f = "Moon.moon_passage_nodes" -> [P |-> Add(FromInt(27), Dec(21222, 5)), lo |-> 985, hi |-> 1020, acc |-> 1, qdep |-> FALSE, ranged |-> FALSE]
  [] f = "Moon.moon_maximum_declination" -> [P |-> Add(FromInt(27), Dec(32158, 5)), lo |-> 990, hi |-> 1016, acc |-> 1, qdep |-> FALSE, ranged |-> FALSE]

\* constant-level table: evaluated once by TLC
FinderTable == [f \in FinderNames |-> FinderRow(f)]
Finder(f) == FinderTable[f]

Ratio(x, permille) == DivInt(MulInt(x, permille), 1000)
SameEps == Dec(1, 8)

\* is the pair (previous result pr, result r) one and the same event?
SameEvent(c, pr, r) == Lt(Abs(Sub(r, pr)), DivInt(c.P, 2))
\* for finders that depend on the event index only, the same event must give the same instant
StableOK(c, pr, r) == c.qdep \/ ~SameEvent(c, pr, r) \/ Le(Abs(Sub(r, pr)), SameEps)
BackSlack(c) == IF c.qdep THEN FromInt(c.acc) ELSE SameEps
NeverBackwards(c, pr, r) == Ge(r, Sub(pr, BackSlack(c)))
OnePeriodApart(c, pr, r) ==
  SameEvent(c, pr, r) \/ (Ge(Sub(r, pr), Ratio(c.P, c.lo)) /\ Le(Sub(r, pr), Ratio(c.P, c.hi)))
WithinOnePeriod(c, q, r) == Le(Abs(Sub(r, q)), Ratio(c.P, c.hi))

\* ---- is the returned instant a real event?  five samples of the relevant quantity
\* at r - 2 tol, r - tol, r, r + tol, r + 2 tol from the library's own positions
Max3(a, b, c) == Max(a, Max(b, c))
Min3(a, b, c) == Min(a, Min(b, c))
SignChangeAcross(s) == (Sgn(s[2]) = -1 /\ Sgn(s[4]) = 1) \/ (Sgn(s[2]) = 1 /\ Sgn(s[4]) = -1) \/ IsZero(s[3])
RisingAcross(s)  == Le(s[2], Zero) /\ Ge(s[4], Zero) /\ Lt(s[2], s[4])
FallingAcross(s) == Ge(s[2], Zero) /\ Le(s[4], Zero) /\ Gt(s[2], s[4])
\* sharp form for extremum kinds: dl dr = change of the quantity over a short central difference at r - tol and r + tol
MaxWithinTol(dl, dr) == Ge(dl, Zero) /\ Le(dr, Zero)
MinWithinTol(dl, dr) == Le(dl, Zero) /\ Ge(dr, Zero)
MaxInside(s) == Ge(Max3(s[2], s[3], s[4]), Max(s[1], s[5]))
MinInside(s) == Le(Min3(s[2], s[3], s[4]), Min(s[1], s[5]))
=============================================================================
