------------------------------ MODULE AngleADT ------------------------------
(***************************************************************************)
(* Abstract data type of pymeeus.Angle (C03).  The abstract value is a    *)
(* real number of degrees (Fix); every constructor and operator stores    *)
(* Reduce(exact real result).                                              *)
(***************************************************************************)
EXTENDS Fix

F360 == FromInt(360)
Reduce(x) == IF x.s = 1 THEN Mod(x, 360) ELSE Neg(Mod(Neg(x), 360))     \* sign(x) * (|x| mod 360)
InOpenRange(v) == Lt(Neg(F360), v) /\ Lt(v, F360)                       \* strictly inside (-360, 360)
ToPositive(v) == Mod(v, 360)                                            \* congruent value in [0, 360)

\* tolerance of the statement: 1e-9 degree, scaled with magnitude
Tol9 == Dec(1, 9)
Scaled(mag) == IF Lt(Abs(mag), One) THEN Tol9 ELSE Mul(Tol9, Abs(mag))
Congruent(v, exact, mag) == WithinMod(v, exact, 360, Scaled(mag))

\* sign law: a non-zero stored value has the sign of the (non-zero) input
SignOK(vs, ins) == (vs = 0) \/ (ins = 0) \/ (vs = ins)

\* exact value of sexagesimal pieces: the sign is negative if ANY piece is negative
DmsExact(d, m, s) ==
  LET mag == Add(Abs(d), Add(DivInt(Abs(m), 60), DivInt(Abs(s), 3600)))
  IN IF d.s = -1 \/ m.s = -1 \/ s.s = -1 THEN Neg(mag) ELSE mag

\* ---- operators on abstract values -----------------------------------------
\* op in the set below; a, b abstract values (for numbers: the number itself)
\* returns the EXACT real result (before reduction), or "undef" markers handled by the caller
RECURSIVE PowNat(_, _)
PowNat(a, n) == IF n = 0 THEN One ELSE Mul(a, PowNat(a, n - 1))

\* quotient witness check:  q * b = a  to relative 1e-13
IsQuotient(q, a, b) == Le(Abs(Sub(Mul(q, b), a)), Add(Add(Dec(1, 13), Mul(Dec(1, 13), Abs(a))), Mul(Abs(q), Dec(2, 16))))
\* floor-quotient witness for the sign-preserving modulo:  0 <= |a| - n*b < b   (b > 0, n integral)
IsFloorQuot(n, a, b) == /\ ~HasFrac(n) /\ n.s = 1
                        /\ LET r == Sub(Abs(a), Mul(n, b)) IN Ge(r, Neg(Dec(1, 15))) /\ Lt(r, Add(b, Dec(1, 15)))
ModExact(n, a, b) == LET r == Sub(Abs(a), Mul(n, b)) IN IF a.s = 1 THEN r ELSE Neg(r)

Pi == Add(FromInt(3), Dec(1415926535, 10))     \* refined below: 3.1415926535897932
PiFix == Add(Pi, Add(Dec(8979, 14), Dec(32, 16)))
=============================================================================
