------------------------------ MODULE CurveFit ------------------------------
(***************************************************************************)
(* C17: least-squares fitting.  Data are sequences of Fix numbers; the     *)
(* sums and determinants of the normal equations are computed HERE in      *)
(* exact fixed point (the harness chooses data on a 1/4 grid so that every *)
(* product below is exact), and the coefficients the implementation        *)
(* returned are compared cross-multiplied, so no division happens.         *)
(***************************************************************************)
EXTENDS Fix, Sequences

RECURSIVE SumSeq(_, _)
SumSeq(s, i) == IF i > Len(s) THEN Zero ELSE Add(s[i], SumSeq(s, i + 1))
Sum(s) == SumSeq(s, 1)
Map2(xs, ys, Op(_, _)) == [i \in 1..Len(xs) |-> Op(xs[i], ys[i])]
SqSeq(xs) == [i \in 1..Len(xs) |-> Mul(xs[i], xs[i])]
Prod(xs, ys) == [i \in 1..Len(xs) |-> Mul(xs[i], ys[i])]
N(xs) == FromInt(Len(xs))
AbsSeq(xs) == [i \in 1..Len(xs) |-> Abs(xs[i])]

\* ---- linear fit  y = a x + b ------------------------------------------------
LinParts(xs, ys) ==
  LET n == N(xs)  sx == Sum(xs)  sy == Sum(ys)  sxx == Sum(SqSeq(xs))  sxy == Sum(Prod(xs, ys)) IN
  [d  |-> Sub(Mul(n, sxx), Mul(sx, sx)),
   na |-> Sub(Mul(n, sxy), Mul(sx, sy)),
   nb |-> Sub(Mul(sy, sxx), Mul(sx, sxy)),
   big |-> Add(Mul(n, sxx), Mul(sx, sx))]           \* size of the cancelling terms (conditioning)

\* conditioning predicate: the determinant keeps at least 1e-7 of its terms
WellCond(d, big) == Ge(Mul(Abs(d), FromInt(10000000)), big)

\* cross-multiplied agreement  c = num / det  to relative 1e-6 (+ an absolute floor)
RelTol == Dec(1, 6)
Agrees(c, num, det, floor) ==
  Le(Abs(Sub(Mul(c, det), num)), Add(Mul(RelTol, Abs(num)), Mul(Abs(det), floor)))

\* ---- quadratic fit  y = a x^2 + b x + c -----------------------------------------
QuadParts(xs, ys) ==
  LET n == N(xs)
      x2 == SqSeq(xs)
      p == Sum(xs)  q == Sum(x2)  r == Sum(Prod(x2, xs))  s == Sum(SqSeq(x2))
      t == Sum(ys)  u == Sum(Prod(xs, ys))  v == Sum(Prod(x2, ys))
      M(a, b) == Mul(a, b)
      M3(a, b, c) == Mul(Mul(a, b), c)
      d == Sub(Sub(Sub(Add(M3(n, q, s), MulInt(M3(p, q, r), 2)), M3(q, q, q)), M3(p, p, s)), M3(n, r, r))
      \* Cramer numerators of the symmetric system [[s r q][r q p][q p n]] (a b c) = (v u t)
      na == Add(Add(M(v, Sub(M(q, n), M(p, p))), M(u, Sub(M(q, p), M(r, n)))), M(t, Sub(M(r, p), M(q, q))))
      nb == Add(Add(M(v, Sub(M(p, q), M(r, n))), M(u, Sub(M(s, n), M(q, q)))), M(t, Sub(M(r, q), M(s, p))))
      nc == Add(Add(M(v, Sub(M(r, p), M(q, q))), M(u, Sub(M(q, r), M(s, p)))), M(t, Sub(M(s, q), M(r, r))))
      big == Add(Add(Add(Add(Abs(M3(n, q, s)), MulInt(Abs(M3(p, q, r)), 2)), Abs(M3(q, q, q))), Abs(M3(p, p, s))), Abs(M3(n, r, r)))
  IN [d |-> d, na |-> na, nb |-> nb, nc |-> nc, big |-> big]

\* ---- general fit: residuals orthogonal to every basis function -----------------
\* Bs[k] = sequence of values of basis function k at the data abscissae (witness),
\* c = returned coefficients
Residuals(ys, Bs, c) ==
  [i \in 1..Len(ys) |-> Sub(ys[i], Add(Add(Mul(c[1], Bs[1][i]), Mul(c[2], Bs[2][i])), Mul(c[3], Bs[3][i])))]
OrthoOK(ys, Bs, c, k) ==
  LET res == Residuals(ys, Bs, c)
      dot == Sum(Prod(res, Bs[k]))
      scale == Add(Sum(Prod(AbsSeq(ys), AbsSeq(Bs[k]))), Dec(1, 9))
  IN Le(Abs(dot), Mul(RelTol, scale))

\* conditioning of a free basis: Gram determinant against the product of its diagonal
GramWellCond(Bs, nb) ==
  LET G(j, k) == Sum(Prod(Bs[j], Bs[k]))
      g11 == G(1, 1)  g22 == IF nb >= 2 THEN G(2, 2) ELSE One  g33 == IF nb >= 3 THEN G(3, 3) ELSE One
      g12 == IF nb >= 2 THEN G(1, 2) ELSE Zero
      g13 == IF nb >= 3 THEN G(1, 3) ELSE Zero
      g23 == IF nb >= 3 THEN G(2, 3) ELSE Zero
      det == Sub(Sub(Sub(Add(Mul(Mul(g11, g22), g33), MulInt(Mul(Mul(g12, g13), g23), 2)),
                        Mul(Mul(g11, g23), g23)), Mul(Mul(g22, g13), g13)), Mul(Mul(g33, g12), g12))
  IN Gt(det, Zero) /\ Ge(Mul(det, FromInt(10000)), Mul(Mul(g11, g22), g33))

\* ---- correlation ---------------------------------------------------------------
CorrParts(xs, ys) ==
  LET n == N(xs)  sx == Sum(xs)  sy == Sum(ys) IN
  [dx  |-> Sub(Mul(n, Sum(SqSeq(xs))), Mul(sx, sx)),
   dy  |-> Sub(Mul(n, Sum(SqSeq(ys))), Mul(sy, sy)),
   nxy |-> Sub(Mul(n, Sum(Prod(xs, ys))), Mul(sx, sy))]
=============================================================================
