--------------------------- MODULE Trace_Computus ---------------------------
(***************************************************************************)
(* Conformance of Epoch.easter / jewish_pesach / moslem2gregorian /        *)
(* gregorian2moslem with the reference semantics of Computus.tla (C19).    *)
(*  "easter": y, m, d (returned), dw = Epoch(y, m, d).dow()                *)
(*  "pesach": y, m, d                                                      *)
(*  "m2g":   one event per Islamic day IN ORDER starting on a 1 Muharram:  *)
(*           hy hm hd (input), y m d (returned), rt = gregorian2moslem of  *)
(*           the returned date                                             *)
(*  "g2m":   one event per civil day IN ORDER starting on a 1 January or   *)
(*           on 622-07-16: y m d (input), hy hm hd (returned)              *)
(* -2 in a returned field = the call raised.                               *)
(***************************************************************************)
EXTENDS TraceKit, Computus

CurIsl == IF st.started THEN IslNext(st.isl)
          ELSE [y |-> Ev.hy, m |-> 1, d |-> 1, jdn |-> IslNewYearJDN(Ev.hy)]
CurCiv == IF st.started THEN NextDay(st.c)
          ELSE IF Ev.y = 622 /\ Ev.m = 7 /\ Ev.d = 16
               THEN [y |-> 622, m |-> 7, d |-> 16, jdn |-> IslEpochJDN, doy |-> 197, dow |-> 5]
               ELSE Jan1(Ev.y)

ValidIsl(h, m, d) == h >= 1 /\ m \in 1..12 /\ d >= 1 /\ d <= IslMLen(h, m)

Verdict ==
  CASE Ev.k = "easter" ->
         Viol("EASTER_TABULAR", <<Ev.m, Ev.d>> = EasterDef(Ev.y))
    \cup Viol("EASTER_SUNDAY", Ev.m \in {3, 4} /\ Ev.d \in 1..31 /\ DowOf(Ev.y, Ev.m, Ev.d) = 0 /\ Ev.dw = 0)
    \cup Viol("EASTER_RANGE", (Ev.m = 3 /\ Ev.d \in 22..31) \/ (Ev.m = 4 /\ Ev.d \in 1..25))
  [] Ev.k = "pesach" ->
         Viol("PESACH_15NISAN", <<Ev.m, Ev.d>> = PesachDef(Ev.y))
    \cup Viol("PESACH_WEEKDAY", Ev.m \in {3, 4} /\ Ev.d \in 1..31 /\ DowOf(Ev.y, Ev.m, Ev.d) \in {0, 2, 4, 6})
    \cup Viol("PESACH_163", Ev.m \in {3, 4} /\ Ev.d \in 1..31 /\
                            JDNOf(Ev.y, Ev.m, Ev.d) + 163 = RoshHashanahJDN(Ev.y + 3761))
  [] Ev.k = "m2g" ->
      LET i == CurIsl IN
         Viol("WALK", Ev.hy = i.y /\ Ev.hm = i.m /\ Ev.hd = i.d /\ (st.started \/ (Ev.hm = 1 /\ Ev.hd = 1)))
    \cup Viol("M2G_ARITHMETIC", <<Ev.y, Ev.m, Ev.d>> = CivilOf(i.jdn))
    \cup Viol("M2G_CONSECUTIVE", (st.started /\ st.pj # -1 /\ IsCivil(Ev.y, Ev.m, Ev.d)) => JDNOf(Ev.y, Ev.m, Ev.d) = st.pj + 1)
    \cup Viol("M2G_ROUNDTRIP", Ev.rt = <<i.y, i.m, i.d>>)
  [] Ev.k = "g2m" ->
      LET c == CurCiv IN
         Viol("WALK", Ev.y = c.y /\ Ev.m = c.m /\ Ev.d = c.d)
    \cup Viol("G2M_ARITHMETIC", ValidIsl(Ev.hy, Ev.hm, Ev.hd) /\ IslJDN(Ev.hy, Ev.hm, Ev.hd) = c.jdn)
  [] OTHER -> {"UNKNOWN_KIND"}

Advance ==
  [started |-> Ev.k \in {"m2g", "g2m"},
   isl |-> IF Ev.k = "m2g" THEN CurIsl ELSE st.isl,
   c   |-> IF Ev.k = "g2m" THEN CurCiv ELSE st.c,
   pj  |-> IF Ev.k = "m2g" /\ IsCivil(Ev.y, Ev.m, Ev.d) THEN JDNOf(Ev.y, Ev.m, Ev.d) ELSE -1]

Init == TraceInit([started |-> FALSE, isl |-> IslStart, c |-> Start, pj |-> 0])
Next == StepWith(Verdict, Advance)
Spec == Init /\ [][Next]_<<l, st>>
=============================================================================
