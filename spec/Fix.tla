------------------------------- MODULE Fix -------------------------------
(***************************************************************************)
(* Exact fixed-point decimal arithmetic for TLC (32-bit integers only).    *)
(*                                                                         *)
(* A Fix number is a record [s |-> 1 | -1, d |-> <<d1, ..., dW>>] whose    *)
(* value is  s * SUM_i d[i] * B^(i-1-NF)  with B = 10^4, NF = 4 fraction   *)
(* limbs (resolution 1e-16) and W - NF = 9 integer limbs (range 1e36).     *)
(* d[1] is the LEAST significant limb.  Zero always carries s = 1.         *)
(*                                                                         *)
(* Everything a trace specification needs to relate observed floating      *)
(* point values is here: Add Sub Neg Abs Cmp Mul MulInt DivInt Floor       *)
(* Mod360 Within.  Multiplication truncates toward zero at 1e-16.          *)
(* The module is self-tested against Python Fractions (FixSelfTest.tla).   *)
(***************************************************************************)
EXTENDS Integers, Sequences, TLC

B  == 10000
NF == 4
W  == 13
Limbs == 1..W

ZeroMag == [i \in Limbs |-> 0]
Zero    == [s |-> 1, d |-> ZeroMag]
IsZero(a) == a.d = ZeroMag

\* ---- magnitudes (functions Limbs -> 0..B-1) -------------------------------
MaxOf(S) == CHOOSE m \in S : \A x \in S : x <= m

CmpMag(a, b) ==
  LET D == {i \in Limbs : a[i] # b[i]} IN
  IF D = {} THEN 0 ELSE LET m == MaxOf(D) IN IF a[m] > b[m] THEN 1 ELSE -1

RECURSIVE AddC(_, _, _, _)
AddC(a, b, i, c) ==
  IF i > W THEN <<>>
  ELSE LET t == a[i] + b[i] + c IN <<t % B>> \o AddC(a, b, i + 1, t \div B)
AddMag(a, b) == AddC(a, b, 1, 0)

RECURSIVE SubC(_, _, _, _)
SubC(a, b, i, c) ==     \* requires a >= b
  IF i > W THEN <<>>
  ELSE LET t == a[i] - b[i] - c IN
       IF t < 0 THEN <<t + B>> \o SubC(a, b, i + 1, 1)
                ELSE <<t>> \o SubC(a, b, i + 1, 0)
SubMag(a, b) == SubC(a, b, 1, 0)

\* ---- signed ---------------------------------------------------------------
Norm(s, d) == IF d = ZeroMag THEN Zero ELSE [s |-> s, d |-> d]
Neg(a) == Norm(-a.s, a.d)
Abs(a) == [s |-> 1, d |-> a.d]
Sgn(a) == IF IsZero(a) THEN 0 ELSE a.s

Add(a, b) ==
  IF a.s = b.s THEN [s |-> a.s, d |-> AddMag(a.d, b.d)]
  ELSE LET c == CmpMag(a.d, b.d) IN
       IF c = 0 THEN Zero
       ELSE IF c > 0 THEN [s |-> a.s, d |-> SubMag(a.d, b.d)]
       ELSE [s |-> b.s, d |-> SubMag(b.d, a.d)]
Sub(a, b) == Add(a, Neg(b))

Cmp(a, b) ==            \* -1, 0, 1
  IF a.s # b.s THEN (IF IsZero(a) /\ IsZero(b) THEN 0 ELSE a.s)
  ELSE a.s * CmpMag(a.d, b.d)
Lt(a, b) == Cmp(a, b) < 0
Le(a, b) == Cmp(a, b) <= 0
Gt(a, b) == Cmp(a, b) > 0
Ge(a, b) == Cmp(a, b) >= 0
Eq(a, b) == Cmp(a, b) = 0
Min(a, b) == IF Le(a, b) THEN a ELSE b
Max(a, b) == IF Ge(a, b) THEN a ELSE b

\* ---- multiplication ---------------------------------------------------------
\* schoolbook product restricted to the non-zero limb ranges of the operands
\* (small integers and short decimals touch one or two limbs); each term < 1e8,
\* at most W terms per column, so every partial sum stays below 2^31
MinOf(S) == CHOOSE m \in S : \A x \in S : m <= x
NZ(d) == {i \in Limbs : d[i] # 0}

Mul(a, b) ==
  IF IsZero(a) \/ IsZero(b) THEN Zero
  ELSE LET la == MinOf(NZ(a.d))  ta == MaxOf(NZ(a.d))
           lb == MinOf(NZ(b.d))  tb == MaxOf(NZ(b.d))
           k0 == la + lb - 1                    \* lowest / highest non-zero column (1-based, i+j-1)
           k1 == ta + tb - 1
           ColSum(k) ==                         \* sum over i + j - 1 = k
             LET lo == IF k + 1 - tb > la THEN k + 1 - tb ELSE la
                 hi == IF k + 1 - lb < ta THEN k + 1 - lb ELSE ta
                 RECURSIVE S(_)
                 S(i) == IF i > hi THEN 0 ELSE a.d[i] * b.d[k + 1 - i] + S(i + 1)
             IN S(lo)
           \* carry propagation from column k0 upward; returns the limbs k0 .. k1+2 as a function
           RECURSIVE Carry(_, _)
           Carry(k, c) == IF k > k1 + 2 THEN <<>>
                          ELSE LET t == (IF k <= k1 THEN ColSum(k) ELSE 0) + c
                               IN <<t % B>> \o Carry(k + 1, t \div B)
           cs == Carry(k0, 0)                   \* cs[j] is limb k0 + j - 1 of the full product
           Full(k) == IF k < k0 \/ k > k1 + 2 THEN 0 ELSE cs[k - k0 + 1]
           d == [i \in Limbs |-> Full(i + NF)]
       IN \* overflow beyond W limbs must never pass silently: TLC stops with this message, which the
          \* harness reports as clause FIX_OVERFLOW at the trace line reached (a value outside 1e36 is not
          \* something any property here allows)
          IF \E k \in (W + NF + 1)..(k1 + 2) : Full(k) # 0
          THEN Assert(FALSE, "FIX_OVERFLOW in Fix!Mul")
          ELSE Norm(a.s * b.s, d)
Sq(a) == Mul(a, a)

\* ---- integers ---------------------------------------------------------------
RECURSIVE IntLimbs(_, _)
IntLimbs(n, i) == IF i > W - NF THEN <<>> ELSE <<n % B>> \o IntLimbs(n \div B, i + 1)
FromNat(n) == [s |-> 1, d |-> <<0, 0, 0, 0>> \o IntLimbs(n, 1)]
FromInt(n) == IF n >= 0 THEN FromNat(n) ELSE Neg(FromNat(-n))

RECURSIVE DivC(_, _, _, _)
DivC(d, n, i, r) ==     \* long division by 0 < n <= 100000, most significant first; builds LS-first
  IF i < 1 THEN <<>>
  ELSE LET cur == r * B + d[i] IN DivC(d, n, i - 1, cur % n) \o <<cur \div n>>
DivInt(a, n) ==         \* truncates toward zero; 0 < n <= 100000
  Norm(a.s, DivC(a.d, n, W, 0))
MulInt(a, n) == Mul(a, FromInt(n))
FromRat(p, q) == DivInt(FromInt(p), q)    \* p / q, 0 < q <= 100000

\* value 10^-k for k in 0..16 and decimal literals  m * 10^-k
RECURSIVE Pow10(_)
Pow10(k) == IF k = 0 THEN 1 ELSE 10 * Pow10(k - 1)
Dec(m, k) ==            \* m * 10^-k, |m| < 2^31, 0 <= k <= 16
  LET RECURSIVE Sh(_, _)
      Sh(x, j) == IF j = 0 THEN x ELSE Sh(DivInt(x, IF j >= 4 THEN 10000 ELSE Pow10(j)), IF j >= 4 THEN j - 4 ELSE 0)
  IN Sh(FromInt(m), k)

\* ---- floor, integer part, modulo ------------------------------------------
HasFrac(a) == \E i \in 1..NF : a.d[i] # 0
Trunc(a) == Norm(a.s, [i \in Limbs |-> IF i <= NF THEN 0 ELSE a.d[i]])
One == FromNat(1)
Floor(a) == IF a.s = 1 \/ ~HasFrac(a) THEN Trunc(a) ELSE Sub(Trunc(a), One)
Frac(a) == Sub(a, Floor(a))                 \* in [0, 1)
\* integer value of a small Fix integer part (|value| < 2^31 required)
ToInt(a) ==             \* Trunc(a) as a TLC integer; requires |a| < 2*10^9
  LET RECURSIVE H(_, _)
      H(i, acc) == IF i <= NF THEN acc ELSE H(i - 1, acc * B + a.d[i])
  IN a.s * H(NF + 3, 0)
FloorInt(a) == ToInt(Floor(a))

\* integer part modulo m (0 < m <= 100000), by Horner over the integer limbs
IntMod(a, m) ==
  LET RECURSIVE H(_, _)
      H(i, r) == IF i <= NF THEN r ELSE H(i - 1, (r * B + a.d[i]) % m)
  IN H(W, 0)
\* a mod m  in [0, m)
Mod(a, m) ==
  LET r  == IntMod(a, m)
      fr == [s |-> 1, d |-> [i \in Limbs |-> IF i <= NF THEN a.d[i] ELSE 0]]
      p  == Add(FromNat(r), fr)              \* |a| mod m, in [0, m)
  IN IF a.s = 1 \/ IsZero(p) THEN p ELSE Sub(FromNat(m), p)
Mod360(a) == Mod(a, 360)
\* distance of a to the nearest multiple of m
DistMod(a, m) == LET r == Mod(a, m) IN Min(r, Sub(FromNat(m), r))

Within(a, b, tol) == Le(Abs(Sub(a, b)), tol)
WithinMod(a, b, m, tol) == Le(DistMod(Sub(a, b), m), tol)
InRange(a, lo, hi) == Le(lo, a) /\ Le(a, hi)

\* well-formedness of a transported number
IsFix(a) == /\ a.s \in {1, -1}
            /\ Len(a.d) = W
            /\ \A i \in Limbs : a.d[i] \in 0..(B - 1)
=============================================================================
