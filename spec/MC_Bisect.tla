------------------------------ MODULE MC_Bisect ------------------------------
(* Sinnott's bisection as kepler_equation codes it, on an abstract monotone *)
(* function over a grid of 2^N cells: start in the middle with a quarter    *)
(* step, move towards the sign of (target - f(x)), halve the step.  For     *)
(* every position of the root the iteration ends within one cell of it.     *)
EXTENDS Integers, TLC
VARIABLES root, x, step
N == 64
Init == root \in 0..N /\ x = N \div 2 /\ step = N \div 4
\* f is increasing and crosses the target between root - 1 and root: sign(target - f(x)) = +1 iff x < root
Next == /\ step >= 1
        /\ x' = IF x < root THEN x + step ELSE x - step
        /\ step' = step \div 2
        /\ UNCHANGED root
Spec == Init /\ [][Next]_<<root, x, step>>
Converges == (step = 0) => (x - root \in -1..1)
InRange == x \in 0..N
=============================================================================
