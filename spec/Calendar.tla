----------------------------- MODULE Calendar -----------------------------
(***************************************************************************)
(* The civil calendar as a successor relation on days, carrying an         *)
(* independent Julian Day Number counter.                                  *)
(*                                                                         *)
(*   c = [y, m, d, jdn, doy, dow]                                          *)
(*                                                                         *)
(* Julian calendar through 1582-10-04, Gregorian from 1582-10-15           *)
(* (astronomical year numbering: year 0 exists, -4, -8, ... are leap).     *)
(* jdn is the Julian Day Number of the civil day (JDE at 0h = jdn - 1/2,   *)
(* JDE at 12h = jdn).  -4712-01-01 has jdn 0 and is a Monday.              *)
(*                                                                         *)
(* The chain IS the reference semantics for C01, C16, C19 and for the     *)
(* field laws of C02.  The Meeus recipes as pymeeus codes them are         *)
(* transcribed below in scaled integers and model-checked against the      *)
(* chain (MC_Calendar) as refinement obligations.                          *)
(***************************************************************************)
EXTENDS Integers
\* (the typing comments in front of some operators are Apalache annotations, used by Apa_Calendar; TLC ignores them)

YMinDef == -4712

Leap(yy) == IF yy < 1582 THEN yy % 4 = 0
            ELSE yy % 4 = 0 /\ (yy % 100 # 0 \/ yy % 400 = 0)
\* NB 1582 itself: 1582 % 4 # 0, so either rule gives FALSE

MLen(yy, mm) == IF mm = 2 THEN (IF Leap(yy) THEN 29 ELSE 28)
                ELSE IF mm \in {4, 6, 9, 11} THEN 30 ELSE 31

YLen(yy) == IF yy = 1582 THEN 355 ELSE IF Leap(yy) THEN 366 ELSE 365

\* is (yy, mm, dd) a day the civil calendar has?
IsCivil(yy, mm, dd) ==
  /\ mm \in 1..12 /\ dd >= 1 /\ dd <= MLen(yy, mm)
  /\ ~(yy = 1582 /\ mm = 10 /\ dd \in 5..14)

Start == [y |-> YMinDef, m |-> 1, d |-> 1, jdn |-> 0, doy |-> 1, dow |-> 1]

\* @type: ({ y: Int, m: Int, d: Int, jdn: Int, doy: Int, dow: Int }) => { y: Int, m: Int, d: Int, jdn: Int, doy: Int, dow: Int };
NextDay(c) ==
  LET j == c.jdn + 1   w == (c.dow + 1) % 7 IN
  IF c.y = 1582 /\ c.m = 10 /\ c.d = 4
    THEN [y |-> c.y, m |-> c.m, d |-> 15, jdn |-> j, doy |-> c.doy + 1, dow |-> w]
  ELSE IF c.d < MLen(c.y, c.m)
    THEN [y |-> c.y, m |-> c.m, d |-> c.d + 1, jdn |-> j, doy |-> c.doy + 1, dow |-> w]
  ELSE IF c.m < 12
    THEN [y |-> c.y, m |-> c.m + 1, d |-> 1, jdn |-> j, doy |-> c.doy + 1, dow |-> w]
  ELSE   [y |-> c.y + 1, m |-> 1, d |-> 1, jdn |-> j, doy |-> 1, dow |-> w]

\* ---- closed forms (proved equal to the chain by MC_Calendar) -------------
\* JDN of 1 January of year yy
Jan1JDN(yy) ==
  LET n == yy + 4712
      jul == 365 * n + (n + 3) \div 4
  IN IF yy <= 1582 THEN jul
     ELSE jul - 10 - ((((yy - 1) \div 100) - 16) - (((yy - 1) \div 400) - 4))
Jan1(yy) == [y |-> yy, m |-> 1, d |-> 1, jdn |-> Jan1JDN(yy), doy |-> 1,
             dow |-> (Jan1JDN(yy) + 1) % 7]

\* proleptic Gregorian weekday (0 = Sunday), independent of the chain:
\* days since 0000-03-01 by the 400-year cycle
GregDow(yy, mm, dd) ==
  LET y2 == IF mm <= 2 THEN yy - 1 ELSE yy
      m2 == IF mm <= 2 THEN mm + 9 ELSE mm - 3        \* March = 0
      n  == 365 * y2 + y2 \div 4 - y2 \div 100 + y2 \div 400
            + (153 * m2 + 2) \div 5 + dd - 1           \* 0000-03-01 = 0
  IN (n + 3) % 7                                       \* 0000-03-01 (Greg.) is a Wednesday

\* ---- transcriptions of the pymeeus recipes (refinement obligations) ----
IsJulianCode(y2, m2, dd) ==      \* Epoch.is_julian as CALLED by _compute_jde (shifted y, m)
  \/ y2 < 1582
  \/ (y2 = 1582 /\ m2 < 10)
  \/ (y2 = 1582 /\ m2 = 10 /\ dd < 5)

MeeusFwd(yy, mm, dd) ==          \* Epoch._compute_jde at 0h:  result + 1/2 = jdn
  LET y2 == IF mm <= 2 THEN yy - 1 ELSE yy
      m2 == IF mm <= 2 THEN mm + 12 ELSE mm
      a  == y2 \div 100
      b  == IF IsJulianCode(y2, m2, dd) THEN 0 ELSE 2 - a + (a \div 4)
  IN (36525 * (y2 + 4716)) \div 100 + (306001 * (m2 + 1)) \div 10000 + dd + b - 1524

\* @type: (Int) => <<Int, Int, Int>>;
MeeusInv(z) ==                   \* Epoch.get_date for an integral day: <<y, m, d>>
  LET a == IF z < 2299161 THEN z
           ELSE LET alpha == (100 * z - 186721625) \div 3652425
                IN z + 1 + alpha - (alpha \div 4)
      b == a + 1524
      c == (100 * b - 12210) \div 36525
      d == (36525 * c) \div 100
      e == (10000 * (b - d)) \div 306001
      day == b - d - (306001 * e) \div 10000
      month == IF e < 14 THEN e - 1 ELSE e - 13
      year == IF month > 2 THEN c - 4716 ELSE c - 4715
  IN <<year, month, day>>

LeapCode(yy) ==                  \* Epoch.is_leap
  IF yy >= 1582 THEN yy % 4 = 0 /\ (yy % 100 # 0 \/ yy % 400 = 0)
  ELSE (IF yy < 0 THEN -yy ELSE yy) % 4 = 0

\* Meeus ch.7 day-of-year formula with the calendar's own leap rule, minus the
\* ten dropped days after the reform: what get_doy must return
DoyFormula(yy, mm, dd) ==
  LET k == IF Leap(yy) THEN 1 ELSE 2
      n == (275 * mm) \div 9 - k * ((mm + 9) \div 12) + dd - 30
  IN IF yy = 1582 /\ (mm > 10 \/ (mm = 10 /\ dd >= 15)) THEN n - 10 ELSE n

\* ---- invariants over a chain state c -----------------------------------------
\* @type: ({ y: Int, m: Int, d: Int, jdn: Int, doy: Int, dow: Int }) => Bool;
InvFwd(c)   == MeeusFwd(c.y, c.m, c.d) = c.jdn
\* @type: ({ y: Int, m: Int, d: Int, jdn: Int, doy: Int, dow: Int }) => Bool;
InvBwd(c)   == MeeusInv(c.jdn) = <<c.y, c.m, c.d>>
\* @type: ({ y: Int, m: Int, d: Int, jdn: Int, doy: Int, dow: Int }) => Bool;
InvCivil(c) == IsCivil(c.y, c.m, c.d)
\* @type: ({ y: Int, m: Int, d: Int, jdn: Int, doy: Int, dow: Int }) => Bool;
InvJan1(c)  == (c.m = 1 /\ c.d = 1) => (c = Jan1(c.y))
\* @type: ({ y: Int, m: Int, d: Int, jdn: Int, doy: Int, dow: Int }) => Bool;
InvDow(c)   == c.dow = (c.jdn + 1) % 7
\* @type: ({ y: Int, m: Int, d: Int, jdn: Int, doy: Int, dow: Int }) => Bool;
InvGregDow(c) == (c.y >= 1583) => (c.dow = GregDow(c.y, c.m, c.d))
\* @type: ({ y: Int, m: Int, d: Int, jdn: Int, doy: Int, dow: Int }) => Bool;
InvYearEnd(c) == (c.m = 12 /\ c.d = 31) => (c.doy = YLen(c.y))
\* @type: ({ y: Int, m: Int, d: Int, jdn: Int, doy: Int, dow: Int }) => Bool;
InvDoy(c)   == c.doy = c.jdn - Jan1JDN(c.y) + 1
\* @type: ({ y: Int, m: Int, d: Int, jdn: Int, doy: Int, dow: Int }) => Bool;
InvDoyFormula(c) == c.doy = DoyFormula(c.y, c.m, c.d)
\* @type: ({ y: Int, m: Int, d: Int, jdn: Int, doy: Int, dow: Int }) => Bool;
InvLeapCode(c) == LeapCode(c.y) = Leap(c.y)
\* @type: ({ y: Int, m: Int, d: Int, jdn: Int, doy: Int, dow: Int }) => Bool;
InvAnchors(c) ==
  /\ (c.y = -4712 /\ c.m = 1 /\ c.d = 1) => c.jdn = 0
  /\ (c.y = 1858 /\ c.m = 11 /\ c.d = 17) => c.jdn = 2400001
  /\ (c.y = 2000 /\ c.m = 1 /\ c.d = 1) => c.jdn = 2451545
  /\ (c.y = 1582 /\ c.m = 10 /\ c.d = 4) => c.jdn = 2299160
  /\ (c.y = 1582 /\ c.m = 10 /\ c.d = 15) => c.jdn = 2299161
=============================================================================
