----------------------------- MODULE Trace_Interp -----------------------------
(***************************************************************************)
(* C12 conformance.  Each event carries the table as SUPPLIED (xin in     *)
(* quarter units, yin Fix), the table as the object HOLDS it (xq, ys),     *)
(* and one call:                                                           *)
(*  "tab":  oc of the constructor; nodes = values returned at every node   *)
(*  "eval": x (Fix), val, der, oc                                           *)
(*  pc = coefficients (integers, quarter units) of the generating          *)
(*          polynomial when the ordinates are polynomial data, else <<>>   *)
(*  "out":  x outside the table: ocv / ocd outcomes of call / derivative   *)
(*  "root" / "minmax": xl xh (Fix) as given, r returned, oc, tol = the     *)
(*          object's tolerance (Fix)                                       *)
(*  "conj": planetary_conjunction / planet_star_conjunction on positions   *)
(*  "line": planet_stars_in_line (alignment function witnessed at the      *)
(*          tabular times)                                                 *)
(*          whose differences follow polynomials pa (RA) and pd (Dec) in n *)
(* ymax = max(1, max |y|) (Fix) scales the float-noise allowance.          *)
(***************************************************************************)
EXTENDS TraceKit, Interp

Rel9(exact, ymax) == Mul(Dec(1, 9), Max(Abs(exact), ymax))
IsPoly == Len(Ev.pc) > 0

VerdictTab ==
  IF HasDuplicates(Ev.xin) THEN Viol("DUPLICATE_REFUSED", Ev.oc = "ValueError")
  ELSE Viol("TOTAL", Ev.oc = "ok")
  \cup (IF Ev.oc # "ok" THEN {} ELSE
        Viol("TABLE_ORDERED", IsAscending(Ev.xq) /\ SamePoints(Ev.xin, Ev.yin, Ev.xq, Ev.ys))
   \cup Viol("PASSES_THROUGH_NODES", Len(Ev.nodes) = Len(Ev.ys) /\
                \A i \in 1..Len(Ev.ys) : Within(Ev.nodes[i], Ev.ys[i], Rel9(Ev.ys[i], One))))

VerdictEval ==
  IF Ev.oc # "ok" THEN {"TOTAL"}
  ELSE IF IsPoly THEN
       LET pv == PolyEval(Ev.pc, Ev.x)  pd == PolyDeriv(Ev.pc, Ev.x) IN
       Viol("REPRODUCES_POLYNOMIAL", Within(Ev.val, pv, Rel9(pv, Ev.ymax)))
  \cup Viol("REPRODUCES_DERIVATIVE", Within(Ev.der, pd, Rel9(pd, Ev.ymax)))
  \cup (IF Len(Ev.xq) <= 4        \* the Newton form of the spec agrees with the polynomial (small tables: exactness of Fix)
        THEN LET c == Coefs(Ev.xq, Ev.ys) IN
             Viol("SPEC_NEWTON_FORM", Within(Eval(c, Ev.xq, Ev.x), pv, Rel9(pv, Ev.ymax)))
        ELSE {})
  ELSE IF Len(Ev.xq) <= 4 THEN     \* smooth data, small table: the unique interpolant in Newton form
       LET c == Coefs(Ev.xq, Ev.ys)
           v == Eval(c, Ev.xq, Ev.x)  d == Deriv(c, Ev.xq, Ev.x) IN
       Viol("INTERPOLANT_VALUE", Within(Ev.val, v, Rel9(v, Ev.ymax)))
  \cup Viol("INTERPOLANT_DERIVATIVE", Within(Ev.der, d, Rel9(d, Ev.ymax)))
  ELSE {}

VerdictOut == Viol("OUTSIDE_REFUSED", Ev.ocv = "ValueError" /\ Ev.ocd = "ValueError")

\* value of a node of the table, when x is a node
IsNode(x) == \E i \in 1..Len(Ev.xq) : X(Ev.xq[i]) = x
NodeVal(x) == Ev.ys[CHOOSE i \in 1..Len(Ev.xq) : X(Ev.xq[i]) = x]

\* root of the interpolant (kind "root") or of its derivative ("minmax") on [xl, xh].
\* Polynomial data: the spec evaluates the generating polynomial exactly.  Smooth data:
\* decided only when both effective limits are nodes (the sign change is then read off
\* the table) and only the interval clause is asserted.
VerdictRoot(isder) ==
  LET lo == EffLo(Ev.xl, Ev.xh, Ev.xq)
      hi == EffHi(Ev.xl, Ev.xh, Ev.xq)
      \* float noise of evaluating the interpolant: 1e-11 of the data's size (1e-13 where the tolerance was tightened
      \* to 1e-12 on data of size <= 50: tight = 1)
      allow == Add(MulInt(Ev.tol, 2), Mul(IF Ev.tight = 1 THEN Dec(1, 13) ELSE Dec(1, 11), Ev.ymax))
      F(x) == IF isder THEN PolyDeriv(Ev.pc, x) ELSE PolyEval(Ev.pc, x)
  IN IF ~Lt(lo, hi) THEN {}                                   \* empty effective interval: unspecified
     ELSE IF isder /\ Gt(Ev.ymax, FromInt(1000)) THEN {}     \* extremum search uses a fixed 1e-10 tolerance on f': not attainable in floats for large data
     ELSE IF IsPoly THEN
          (IF ~SignChange(F(lo), F(hi)) THEN {}                \* no sign change: unspecified
           ELSE Viol("ROOT_FOUND", Ev.oc = "ok")
           \cup (IF Ev.oc # "ok" THEN {} ELSE
                 Viol("ROOT_INSIDE_INTERVAL", Inside(Ev.r, lo, hi))
            \* the object treats an abscissa within its tolerance of a node as that node
            \cup Viol("ROOT_VANISHES", \/ Le(Abs(F(Ev.r)), allow)
                                       \/ \E i \in 1..Len(Ev.xq) : /\ Within(Ev.r, X(Ev.xq[i]), Ev.tol)
                                                                    /\ Le(Abs(F(X(Ev.xq[i]))), allow))))
     ELSE IF ~isder /\ IsNode(lo) /\ IsNode(hi) /\ SignChange(NodeVal(lo), NodeVal(hi))
          THEN Viol("ROOT_FOUND", Ev.oc = "ok")
          \cup (IF Ev.oc # "ok" THEN {} ELSE Viol("ROOT_INSIDE_INTERVAL", Inside(Ev.r, lo, hi)))
     ELSE {}

\* conjunction helpers: n0 = time (in tabular intervals from the middle entry) at which the
\* interpolated right-ascension difference vanishes; dd = interpolated declination difference there.
\* pa / pd = quarter-unit coefficients of the polynomials (in n) the supplied differences follow.
VerdictConj ==
  IF Ev.oc # "ok" THEN {"TOTAL"} ELSE
       Viol("CONJUNCTION_INSIDE_TABLE", Inside(Ev.n0, FromInt(-Ev.half), FromInt(Ev.half)))
  \cup Viol("CONJUNCTION_RA_DIFFERENCE_ZERO", Le(Abs(PolyEval(Ev.pa, Ev.n0)), Dec(1, 9)))
  \cup Viol("CONJUNCTION_DEC_DIFFERENCE", Within(Ev.dd, PolyEval(Ev.pd, Ev.n0), Dec(1, 9)))

\* planet_stars_in_line: ys = the alignment function at the tabular times (witnessed by the harness), n0 the returned
\* time.  The table is generated with a sign change between its first and last entry, so a root exists on it:
\* the helper must return (not raise), inside the table, where the interpolating polynomial of ys vanishes
VerdictLine ==
  IF ~SignChange(Ev.ys[1], Ev.ys[Len(Ev.ys)]) THEN {"LINE_TABLE_WITHOUT_SIGN_CHANGE"}
  ELSE IF Ev.oc # "ok" THEN {"LINE_ROOT_FOUND"}
  ELSE Viol("LINE_INSIDE_TABLE", Inside(Ev.n0, FromInt(-Ev.half), FromInt(Ev.half)))
  \cup Viol("LINE_ALIGNMENT_ZERO", Le(Abs(Eval(Coefs(Ev.xq, Ev.ys), Ev.xq, Ev.n0)), Add(Mul(Ev.scale, Dec(1, 9)), Dec(15, 11))))     \* the object's tolerance (1e-10, absolute on the interpolant) x 1.5

Verdict ==
  IF Ev.k = "line" THEN VerdictLine ELSE
  IF Ev.k = "conj" THEN VerdictConj ELSE
  IF Ev.k \in {"eval", "root", "minmax"} /\ ~(Len(Ev.xq) >= 2 /\ IsAscending(Ev.xq)) THEN {"TABLE_ORDERED"} ELSE
  CASE Ev.k = "tab" -> VerdictTab
    [] Ev.k = "eval" -> VerdictEval
    [] Ev.k = "out" -> VerdictOut
    [] Ev.k = "root" -> VerdictRoot(FALSE)
    [] Ev.k = "minmax" -> VerdictRoot(TRUE)
    [] OTHER -> {"UNKNOWN_KIND"}

Init == TraceInit(0)
Next == StepWith(Verdict, 0)
Spec == Init /\ [][Next]_<<l, st>>
=============================================================================
