------------------------------ MODULE SexaCarry ------------------------------
(***************************************************************************)
(* Integer carry model of Angle.dms_str (integers only: shared by the TLC  *)
(* instance MC_Sexa and the symbolic instance Apa_Sexa).                   *)
(***************************************************************************)
EXTENDS Integers

\* ---- integer carry model of dms_str (design level, MC_Sexa) -------------------
\* a non-negative value of k fine units (10^-(n+1) arcsec) printed with n decimals
Pow(n) == IF n = 0 THEN 1 ELSE IF n = 1 THEN 10 ELSE IF n = 2 THEN 100 ELSE 1000
ModelPrint(k, n) ==
  LET fine == 10 * Pow(n)                       \* fine units per arcsec
      d0 == k \div (3600 * fine)
      r0 == k % (3600 * fine)
      m0 == r0 \div (60 * fine)
      sf == r0 % (60 * fine)                     \* seconds in fine units
      sr == (sf + 5) \div 10                     \* rounded to n decimals (half up; ties are covered by the half-unit law)
      c1 == sr = 60 * Pow(n)
      s1 == IF c1 THEN 0 ELSE sr
      m1 == IF c1 THEN m0 + 1 ELSE m0
      c2 == m1 = 60
      m2 == IF c2 THEN 0 ELSE m1
      d1 == IF c2 THEN d0 + 1 ELSE d0
      d2 == IF d1 >= 360 THEN d1 - 360 ELSE d1
  IN [d |-> d2, m |-> m2, s |-> s1]              \* s in units of 10^-n arcsec
ModelOK(k, n) ==
  LET p == ModelPrint(k, n)
      fine == 10 * Pow(n)
      back == ((p.d * 3600 + p.m * 60) * Pow(n) + p.s) * 10      \* in fine units
      full == 360 * 3600 * fine
      diff == IF back >= k THEN back - k ELSE k - back
  IN /\ p.m \in 0..59 /\ p.s \in 0..(60 * Pow(n) - 1) /\ p.d \in 0..359
     /\ (diff <= 5 \/ full - diff <= 5)
=============================================================================
