SPECIFICATION Spec
INVARIANT Monotone
INVARIANT OnlyJanJul
INVARIANT Ends
INVARIANT Anchors
INVARIANT LookupRefines
INVARIANT EndLeapMonths
CHECK_DEADLOCK FALSE
