SPECIFICATION Spec
INVARIANT ReduceMatchesIntegers
INVARIANT ReduceRange
INVARIANT ReduceIdempotent
INVARIANT ReduceCongruent
INVARIANT NegSymmetric
INVARIANT AddCompatible
INVARIANT SubCompatible
INVARIANT MulByIntCompatible
INVARIANT PositiveRange
INVARIANT ModLaw
CHECK_DEADLOCK FALSE
