---------------------------- MODULE Sexagesimal ----------------------------
(***************************************************************************)
(* C04: canonical sexagesimal decomposition and printing.                  *)
(* A printed form is handed over as three fields F = <<deg, min, sec>>,    *)
(* each [neg |-> 0/1, a |-> Fix magnitude, nz |-> 0/1, p |-> 0/1 present] as *)
(* they appear in the string (tokenised as text by the harness).           *)
(* unit = 360 for degrees, 24 for right ascension in hours.                *)
(***************************************************************************)
EXTENDS Fix, SexaCarry

Tol9 == Dec(1, 9)
Sixty == FromInt(60)

\* value of d + m/60 + s/3600 in exact fixed point
Recombine(d, m, s) == Add(FromInt(d), Add(DivInt(FromInt(m), 60), DivInt(s, 3600)))

TupleOK(v, de, mi, se, sg, unit) ==
  /\ de \in 0..(unit - 1) /\ mi \in 0..59
  /\ IsFix(se) /\ Ge(se, Zero) /\ Lt(se, Sixty)
  /\ sg \in {1, -1}
  /\ Within(IF sg = 1 THEN Recombine(de, mi, se) ELSE Neg(Recombine(de, mi, se)), v, Tol9)

\* half a unit of the last printed decimal of the seconds, expressed in the
\* unit of the value (degrees or hours):  0.5 * 10^-nd / 3600  (+ 1e-9)
HalfUnit(nd) == IF nd < 0 THEN Tol9 ELSE Add(DivInt(Dec(5, nd + 1), 3600), Tol9)

FieldVal(F) == Add(F[1].a, Add(DivInt(F[2].a, 60), DivInt(F[3].a, 3600)))
NonZero(F) == {i \in 1..3 : F[i].nz = 1}      \* nz: the field as printed is not zero (denormals survive)
FirstNZ(F) == CHOOSE i \in NonZero(F) : \A j \in NonZero(F) : i <= j

No60(F) == Lt(F[2].a, Sixty) /\ Lt(F[3].a, Sixty)
SignOnce(vneg, F) ==        \* vneg: the value is negative (sign transported separately: denormals)
  IF NonZero(F) = {} THEN \A i \in 1..3 : F[i].neg = 0
  ELSE /\ \A i \in 1..3 : (i # FirstNZ(F)) => F[i].neg = 0
       /\ (F[FirstNZ(F)].neg = 1) <=> vneg
ReadBackTol(v, nd, F, unit, tol) ==      \* tol: what the float decomposition may cost (1e-9 in general)
  LET mag == FieldVal(F)
      neg == \E i \in 1..3 : F[i].neg = 1
      p   == IF neg THEN Neg(mag) ELSE mag
  IN WithinMod(p, v, unit, IF nd < 0 THEN tol ELSE Add(DivInt(Dec(5, nd + 1), 3600), tol))
ReadBack(v, nd, F, unit) == ReadBackTol(v, nd, F, unit, Tol9)
Canonical(F, unit) ==      \* integral degree/hour and minute fields, at most one full turn
  /\ Le(F[1].a, FromInt(unit)) /\ ~HasFrac(F[1].a) /\ ~HasFrac(F[2].a)

\* (the integer carry model of dms_str lives in SexaCarry.tla: integers only, shared with the Apalache instance)
=============================================================================
