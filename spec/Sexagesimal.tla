---------------------------- MODULE Sexagesimal ----------------------------
(***************************************************************************)
(* C04: canonical sexagesimal decomposition and printing.                  *)
(* A printed form is handed over as three fields F = <<deg, min, sec>>,    *)
(* each [neg |-> 0/1, a |-> Fix magnitude, nz |-> 0/1, p |-> 0/1 present] as *)
(* they appear in the string (tokenised as text by the harness).           *)
(* unit = 360 for degrees, 24 for right ascension in hours.                *)
(***************************************************************************)
EXTENDS Fix

Tol9 == Dec(1, 9)
Sixty == FromInt(60)

\* value of d + m/60 + s/3600 in exact fixed point
Recombine(d, m, s) == Add(FromInt(d), Add(DivInt(FromInt(m), 60), DivInt(s, 3600)))

TupleOK(v, de, mi, se, sg, unit) ==
  /\ de \in 0..(unit - 1) /\ mi \in 0..59
  /\ IsFix(se) /\ Ge(se, Zero) /\ Lt(se, Sixty)
  /\ sg \in {1, -1}
  /\ Within(IF sg = 1 THEN Recombine(de, mi, se) ELSE Neg(Recombine(de, mi, se)), v, Tol9)

\* half a unit of the last printed decimal of the seconds, expressed in the
\* unit of the value (degrees or hours):  0.5 * 10^-nd / 3600  (+ 1e-9)
HalfUnit(nd) == IF nd < 0 THEN Tol9 ELSE Add(DivInt(Dec(5, nd + 1), 3600), Tol9)

FieldVal(F) == Add(F[1].a, Add(DivInt(F[2].a, 60), DivInt(F[3].a, 3600)))
NonZero(F) == {i \in 1..3 : F[i].nz = 1}      \* nz: the field as printed is not zero (denormals survive)
FirstNZ(F) == CHOOSE i \in NonZero(F) : \A j \in NonZero(F) : i <= j

No60(F) == Lt(F[2].a, Sixty) /\ Lt(F[3].a, Sixty)
SignOnce(vneg, F) ==        \* vneg: the value is negative (sign transported separately: denormals)
  IF NonZero(F) = {} THEN \A i \in 1..3 : F[i].neg = 0
  ELSE /\ \A i \in 1..3 : (i # FirstNZ(F)) => F[i].neg = 0
       /\ (F[FirstNZ(F)].neg = 1) <=> vneg
ReadBackTol(v, nd, F, unit, tol) ==      \* tol: what the float decomposition may cost (1e-9 in general)
  LET mag == FieldVal(F)
      neg == \E i \in 1..3 : F[i].neg = 1
      p   == IF neg THEN Neg(mag) ELSE mag
  IN WithinMod(p, v, unit, IF nd < 0 THEN tol ELSE Add(DivInt(Dec(5, nd + 1), 3600), tol))
ReadBack(v, nd, F, unit) == ReadBackTol(v, nd, F, unit, Tol9)
Canonical(F, unit) ==      \* integral degree/hour and minute fields, at most one full turn
  /\ Le(F[1].a, FromInt(unit)) /\ ~HasFrac(F[1].a) /\ ~HasFrac(F[2].a)

\* ---- integer carry model of dms_str (design level, MC_Sexa) -------------------
\* a non-negative value of k fine units (10^-(n+1) arcsec) printed with n decimals
Pow(n) == IF n = 0 THEN 1 ELSE IF n = 1 THEN 10 ELSE IF n = 2 THEN 100 ELSE 1000
ModelPrint(k, n) ==
  LET fine == 10 * Pow(n)                       \* fine units per arcsec
      d0 == k \div (3600 * fine)
      r0 == k % (3600 * fine)
      m0 == r0 \div (60 * fine)
      sf == r0 % (60 * fine)                     \* seconds in fine units
      sr == (sf + 5) \div 10                     \* rounded to n decimals (half up; ties are covered by the half-unit law)
      c1 == sr = 60 * Pow(n)
      s1 == IF c1 THEN 0 ELSE sr
      m1 == IF c1 THEN m0 + 1 ELSE m0
      c2 == m1 = 60
      m2 == IF c2 THEN 0 ELSE m1
      d1 == IF c2 THEN d0 + 1 ELSE d0
      d2 == IF d1 >= 360 THEN d1 - 360 ELSE d1
  IN [d |-> d2, m |-> m2, s |-> s1]              \* s in units of 10^-n arcsec
ModelOK(k, n) ==
  LET p == ModelPrint(k, n)
      fine == 10 * Pow(n)
      back == ((p.d * 3600 + p.m * 60) * Pow(n) + p.s) * 10      \* in fine units
      full == 360 * 3600 * fine
      diff == IF back >= k THEN back - k ELSE k - back
  IN /\ p.m \in 0..59 /\ p.s \in 0..(60 * Pow(n) - 1) /\ p.d \in 0..359
     /\ (diff <= 5 \/ full - diff <= 5)
=============================================================================
