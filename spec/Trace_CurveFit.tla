---------------------------- MODULE Trace_CurveFit ----------------------------
(***************************************************************************)
(* C17 conformance.  One event per fitting call on real CurveFitting       *)
(* objects:  kind in {"lin", "quad", "corr", "gen"}; xs ys = the data as   *)
(* the object holds them (Fix, on a 1/4 grid so the sums below are exact); *)
(* oc = outcome; c = returned coefficients (Fix, padded to 3); r = the     *)
(* correlation coefficient; for "gen": basis in {"x2x1", "x1", "free"} and *)
(* Bs = values of the three basis functions at the abscissae (witness);    *)
(* nb = number of basis functions given; ysc = max(1, max |y|) (Fix).      *)
(***************************************************************************)
EXTENDS TraceKit, CurveFit

AbsFloor(ev) == Mul(Dec(1, 9), ev.ysc)
ZDE == "ZeroDivisionError"

LinVerdict(ev, a, b) ==
  LET P == LinParts(ev.xs, ev.ys) IN
  IF IsZero(P.d) THEN Viol("DEGENERATE_RAISES", ev.oc = ZDE)
  ELSE IF ~WellCond(P.d, P.big) THEN {}
  ELSE Viol("TOTAL", ev.oc = "ok")
  \cup (IF ev.oc = "ok" THEN Viol("LEAST_SQUARES_LINEAR", Agrees(a, P.na, P.d, AbsFloor(ev)) /\ Agrees(b, P.nb, P.d, AbsFloor(ev)))
        ELSE {})

QuadVerdict(ev, a, b, c) ==
  LET P == QuadParts(ev.xs, ev.ys) IN
  IF IsZero(P.d) THEN Viol("DEGENERATE_RAISES", ev.oc = ZDE)
  ELSE IF ~WellCond(P.d, P.big) THEN {}
  ELSE Viol("TOTAL", ev.oc = "ok")
  \cup (IF ev.oc = "ok" THEN Viol("LEAST_SQUARES_QUADRATIC",
             Agrees(a, P.na, P.d, AbsFloor(ev)) /\ Agrees(b, P.nb, P.d, AbsFloor(ev)) /\ Agrees(c, P.nc, P.d, AbsFloor(ev)))
        ELSE {})

CorrVerdict(ev) ==
  LET C == CorrParts(ev.xs, ev.ys)
      r == ev.r
      lim == Add(One, Dec(1, 12))
  IN IF IsZero(C.dx) \/ IsZero(C.dy) THEN Viol("DEGENERATE_RAISES", ev.oc = ZDE)
     ELSE Viol("TOTAL", ev.oc = "ok")
     \cup (IF ev.oc # "ok" THEN {} ELSE
           Viol("CORR_RANGE", Le(Abs(r), lim))
      \cup Viol("CORR_VALUE",           \* r^2 dx dy = nxy^2 and sign(r) = sign(nxy)
                /\ Le(Abs(Sub(Mul(Mul(r, r), Mul(C.dx, C.dy)), Mul(C.nxy, C.nxy))),
                      Add(Mul(Dec(1, 9), Mul(C.dx, C.dy)), Dec(1, 12)))
                /\ (IsZero(C.nxy) \/ Lt(Abs(r), Dec(1, 9)) \/ Sgn(r) = Sgn(C.nxy)))
      \cup Viol("CORR_COLLINEAR", (Mul(C.nxy, C.nxy) = Mul(C.dx, C.dy)) => Within(Abs(r), One, Dec(1, 9))))

GenVerdict(ev) ==
  IF ev.basis = "x2x1" THEN QuadVerdict(ev, ev.c[1], ev.c[2], ev.c[3])
  ELSE IF ev.basis = "x1" THEN LinVerdict(ev, ev.c[1], ev.c[2]) \cup Viol("GEN_PADS_ZERO", ev.oc # "ok" \/ IsZero(ev.c[3]))
  ELSE IF ~GramWellCond(ev.Bs, ev.nb) THEN {}            \* nearly dependent basis on these abscissae
  ELSE IF ev.oc # "ok" THEN {"TOTAL"}
  ELSE Viol("RESIDUALS_ORTHOGONAL", \A k \in 1..ev.nb : OrthoOK(ev.ys, ev.Bs, ev.c, k))

Verdict ==
  CASE Ev.k = "lin"  -> LinVerdict(Ev, Ev.c[1], Ev.c[2])
    [] Ev.k = "quad" -> QuadVerdict(Ev, Ev.c[1], Ev.c[2], Ev.c[3])
    [] Ev.k = "corr" -> CorrVerdict(Ev)
    [] Ev.k = "gen"  -> GenVerdict(Ev)
    \* the same data in other units: same outcome class, same coefficient
    [] Ev.k = "corr2" -> Viol("CORR_SCALE_INVARIANT", Ev.oc2 = Ev.oc /\ (Ev.oc = "ok" => Within(Ev.r2, Ev.r, Dec(1, 9))))
    [] OTHER -> {"UNKNOWN_KIND"}

Init == TraceInit(0)
Next == StepWith(Verdict, 0)
Spec == Init /\ [][Next]_<<l, st>>
=============================================================================
