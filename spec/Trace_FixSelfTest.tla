------------------------- MODULE Trace_FixSelfTest -------------------------
(* Machinery self-test: every Fix operator evaluated by TLC must agree     *)
(* exactly with Python Fraction arithmetic (expected values in the trace). *)
EXTENDS TraceKit, Fix

Verdict(ev) ==
  LET a == ev.a  b == ev.b  n == ev.n  r == ev.r IN
  Viol("WF",  IsFix(a) /\ IsFix(b) /\ IsFix(r))
  \cup (CASE ev.op = "add"  -> Viol("ADD", Add(a, b) = r)
        [] ev.op = "sub"    -> Viol("SUB", Sub(a, b) = r)
        [] ev.op = "mul"    -> Viol("MUL", Mul(a, b) = r)
        [] ev.op = "cmp"    -> Viol("CMP", Cmp(a, b) = n)
        [] ev.op = "divint" -> Viol("DIVINT", DivInt(a, n) = r)
        [] ev.op = "mulint" -> Viol("MULINT", MulInt(a, n) = r)
        [] ev.op = "floor"  -> Viol("FLOOR", Floor(a) = r)
        [] ev.op = "mod"    -> Viol("MOD", Mod(a, n) = r)
        [] ev.op = "fromint"-> Viol("FROMINT", FromInt(n) = r)
        [] ev.op = "toint"  -> Viol("TOINT", ToInt(a) = n)
        [] ev.op = "dec"    -> Viol("DEC", Dec(n, ev.k) = r)
        [] ev.op = "distmod"-> Viol("DISTMOD", DistMod(a, n) = r)
        [] OTHER -> {"UNKNOWN_OP"})

Init == TraceInit(0)
Next == StepWith(Verdict(Ev), 0)
Spec == Init /\ [][Next]_<<l, st>>
=============================================================================
