--------------------------- MODULE Trace_Precession ---------------------------
(***************************************************************************)
(* C06 conformance: precession as a rigid, invertible rotation.            *)
(* Unit vectors are witnesses (norm verified).                             *)
(*  "pe": equatorial: u0 --(e0 -> e1)--> u1 --(e1 -> e0)--> u2; uid =      *)
(*        (e0 -> e0); second star v0 -> v1; c0 = |u0 - v0| (witness)       *)
(*  "pl": ecliptical: the same with w5 = 1 when both epochs are within 5   *)
(*        centuries of J2000                                               *)
(*  "rt": ur = result of the equatorial route, ue = result of the route    *)
(*        through the ecliptic (mean obliquity of each epoch)              *)
(*  "pm": p1 q1 / p2 q2 = results with and without proper motion after dt *)
(*        and 2 dt (the displacement is the chord between them);           *)
(*        mua mud (deg/yr), cd = cos(declination), dty = dt in years       *)
(*  "nc": un = FK4 (Newcomb) result, uf = FK5 result                       *)
(*  "el": elements i arg lon and their images there and back (deg)         *)
(***************************************************************************)
EXTENDS TraceKit, Sphere

Deg(u, v, m, k) == SameDirection(u, v, m, k)
\* is the angle between (a, b) equal to the angle between (c, d), given cw = |a - b| (witness verified)?
SameAngle(a, b, c, d, cw) ==
  LET t == MulInt(DivInt(Mul(Dec(2, 9), PiS), 180), S8)        \* 2e-9 degree, scaled (both ends may move by 1e-9)
      cs == MulInt(cw, S8)
  IN /\ Le(Abs(Sub(ChordSq8(a, b), Mul(cs, cs))), Add(Mul(Dec(1, 9), Mul(cs, cs)), Dec(1, 6)))
     /\ Le(Abs(Sub(ChordSq8(c, d), Mul(cs, cs))), Add(Mul(MulInt(cs, 2), t), Mul(t, t)))

VerdictPe ==
     Viol("WITNESS", IsUnit(Ev.u0) /\ IsUnit(Ev.u1) /\ IsUnit(Ev.u2) /\ IsUnit(Ev.uid) /\ IsUnit(Ev.v0) /\ IsUnit(Ev.v1))
\cup Viol("PRECESSION_ZERO_INTERVAL_IDENTITY", Deg(Ev.uid, Ev.u0, 1, 9))
\cup Viol("PRECESSION_THERE_AND_BACK", Deg(Ev.u2, Ev.u0, 1, 9))
\cup Viol("PRECESSION_KEEPS_ANGLES", SameAngle(Ev.u0, Ev.v0, Ev.u1, Ev.v1, Ev.c0))

VerdictPl ==
     Viol("WITNESS", IsUnit(Ev.u0) /\ IsUnit(Ev.u1) /\ IsUnit(Ev.u2) /\ IsUnit(Ev.uid))
\cup Viol("ECL_PRECESSION_ZERO_INTERVAL_IDENTITY", Deg(Ev.uid, Ev.u0, 1, 9))
\cup (IF Ev.w5 = 1 THEN Viol("ECL_PRECESSION_THERE_AND_BACK", Deg(Ev.u2, Ev.u0, 1, 6)) ELSE {})

VerdictRt == Viol("WITNESS", IsUnit(Ev.ur) /\ IsUnit(Ev.ue)) \cup Viol("PRECESSION_ROUTES_AGREE", Deg(Ev.ur, Ev.ue, 1, 4))

VerdictPm ==
  LET rad(x) == DivInt(Mul(x, PiS), 180)
      ma == Mul(rad(Mul(Ev.mua, Ev.dty)), Ev.cd)
      md == rad(Mul(Ev.mud, Ev.dty))
      mas == MulInt(ma, S8)   mds == MulInt(md, S8)
      e2 == Add(Mul(mas, mas), Mul(mds, mds))                             \* expected squared displacement, scaled by 1e16
      c1 == ChordSq8(Ev.p1, Ev.q1)
      c2 == ChordSq8(Ev.p2, Ev.q2)
  IN Viol("WITNESS", IsUnit(Ev.p1) /\ IsUnit(Ev.q1) /\ IsUnit(Ev.p2) /\ IsUnit(Ev.q2))
\cup Viol("PROPER_MOTION_LINEAR", Le(Abs(Sub(c2, MulInt(c1, 4))), Add(Mul(Dec(16, 2), c1), Dec(1, 6))))      \* 4 % of the doubled displacement (squared: 4 x 4 %)
\cup Viol("PROPER_MOTION_SIZE", Le(Abs(Sub(c1, e2)), Add(Mul(Dec(8, 2), e2), Dec(1, 6))))

VerdictNc == Viol("WITNESS", IsUnit(Ev.un) /\ IsUnit(Ev.uf)) \cup
             (IF Ev.oc # "ok" THEN {"NEWCOMB_TOTAL"} ELSE Viol("NEWCOMB_NEAR_FK5", Deg(Ev.un, Ev.uf, 5, 3)))

\* a loop A -> B -> C -> A through three equinoxes brings back the inclination and the longitude of perihelion
\* (node + argument; each of them alone is ill-conditioned for nearly coplanar orbits)
VerdictEl3 ==
     Viol("ELEMENTS_LOOP", /\ Within(Ev.i2, Ev.i0, Dec(1, 5))
                           /\ WithinMod(Add(Ev.a2, Ev.l2), Add(Ev.a0, Ev.l0), 360, Dec(1, 3)))

VerdictEl ==
  IF Ev.w5 = 0 THEN {} ELSE
  \* node and argument of perihelion are ill-conditioned separately for nearly coplanar orbits (error ~ 1 / sin i):
  \* their sum, the inclination, and (for i >= 5 deg or <= 175 deg) each of them must come back
  LET loose == Lt(Ev.i0, FromInt(5)) \/ Gt(Ev.i0, FromInt(175))
      tol == IF loose THEN Dec(1, 3) ELSE Dec(1, 5) IN
  Viol("ELEMENTS_THERE_AND_BACK", /\ WithinMod(Ev.i2, Ev.i0, 360, Dec(1, 5)) /\ WithinMod(Ev.a2, Ev.a0, 360, tol)
                                  /\ WithinMod(Ev.l2, Ev.l0, 360, tol)
                                  /\ (loose \/ WithinMod(Add(Ev.a2, Ev.l2), Add(Ev.a0, Ev.l0), 360, Dec(2, 5))))
\* the ecliptic moves by at most 47 arcsec per century: within 5 centuries the inclination changes by less than 0.2 degree
\cup Viol("ELEMENTS_INCLINATION_CONTINUOUS", Le(Abs(Sub(Ev.i1, Ev.i0)), Dec(2, 1)))

Verdict == CASE Ev.k = "pe" -> VerdictPe [] Ev.k = "pl" -> VerdictPl [] Ev.k = "rt" -> VerdictRt [] Ev.k = "pm" -> VerdictPm
             [] Ev.k = "nc" -> VerdictNc [] Ev.k = "el" -> VerdictEl [] Ev.k = "el3" -> VerdictEl3
             [] Ev.k = "raise" -> {"PRECESSION_TOTAL"}        \* a reduction of a legal direction between legal epochs raised
             [] OTHER -> {"UNKNOWN_KIND"}
Init == TraceInit(0)
Next == StepWith(Verdict, 0)
Spec == Init /\ [][Next]_<<l, st>>
=============================================================================
