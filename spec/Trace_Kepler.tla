----------------------------- MODULE Trace_Kepler -----------------------------
(***************************************************************************)
(* C11 conformance (all numbers Fix; angles in degrees).                   *)
(*  "kep":  e, M (mean anomaly as given, any number of turns), E, v from   *)
(*          kepler_equation; sE cE = sin/cos E; sv cv = sin/cos (v/2);     *)
(*          sE2 cE2 = sin/cos (E/2); w = sqrt((1+e)/(1-e))                 *)
(*  "vel":  a, e; vq = velocity(a(1-e), a), vQ = velocity(a(1+e), a),      *)
(*          vp = velocity_perihelion, va = velocity_aphelion, vc =         *)
(*          velocity(a, a)                                                 *)
(*  "len":  a, e, len = length_orbit; b = witness for a sqrt(1-e^2);       *)
(*          for e = 0.95: lenm = length just below the switch              *)
(*  "pha":  three distances r d R, i = phase_angle, k = illuminated        *)
(*          fraction, ci = cos i                                           *)
(*  "node": omega, e, a, dt = returned time - reference time (days), rr =  *)
(*          returned radius; sa = sqrt(a); E2 v2 = kepler_equation at the  *)
(*          mean anomaly Mn the harness derived; cE = cos E2; asc 0/1      *)
(***************************************************************************)
EXTENDS TraceKit, Kepler

Rel(x, y, tol) == Le(Abs(Sub(x, y)), Mul(tol, Max(Abs(x), Abs(y))))

VerdictKep ==
  IF Ev.oc # "ok" THEN {"TOTAL"} ELSE
     Viol("WITNESS", SC(Ev.sE, Ev.cE) /\ SC(Ev.sv, Ev.cv) /\ SC(Ev.sE2, Ev.cE2))
\cup Viol("KEPLER_EQUATION", ResidualOK(Ev.E, Ev.e, Ev.sE, Ev.M))
\cup Viol("SAME_HALF_REVOLUTION", SameHalf(Ev.M, Ev.E))
\cup Viol("TRUE_ANOMALY", TrueAnomalyOK(Ev.e, Ev.w, Ev.sv, Ev.cv, Ev.sE2, Ev.cE2))
\cup Viol("TRUE_ANOMALY_HALF", SameHalf(Ev.E, Ev.v))

VerdictVel ==
     Viol("VIS_VIVA_PERIHELION", Rel(Ev.vq, Ev.vp, Dec(1, 4)))
\cup Viol("VIS_VIVA_APHELION", Rel(Ev.vQ, Ev.va, Dec(1, 4)))
\cup Viol("SPEED_PRODUCT", Rel(Mul(Ev.vp, Ev.va), Mul(Ev.vc, Ev.vc), Dec(2, 4)))

VerdictLen ==
  LET twopi == MulInt(PiK, 2) IN
     Viol("WITNESS", Within(Mul(Ev.b, Ev.b), Mul(Mul(Ev.a, Ev.a), Sub(One, Mul(Ev.e, Ev.e))), Mul(Dec(1, 11), Mul(Ev.a, Ev.a))))
\cup Viol("LENGTH_BOUNDS", Ge(Ev.len, Mul(Mul(twopi, Ev.b), Sub(One, Dec(1, 9)))) /\ Le(Ev.len, Mul(Mul(twopi, Ev.a), Add(One, Dec(1, 9)))))
\cup (IF Ev.sw = 1 THEN Viol("LENGTH_CONTINUOUS", Rel(Ev.len, Ev.lenm, Dec(3, 4))) ELSE {})

VerdictPha ==
     Viol("PHASE_FRACTION", Within(Sub(MulInt(Ev.kf, 2), One), Ev.ci, Dec(1, 9)))
\cup Viol("PHASE_RANGE", Ge(Ev.i, Zero) /\ Le(Ev.i, FromInt(180)) /\ Ge(Ev.kf, Neg(Dec(1, 12))) /\ Le(Ev.kf, Add(One, Dec(1, 12))))
\* law of cosines: R^2 = r^2 + d^2 - 2 r d cos i
\cup Viol("PHASE_TRIANGLE", Within(Mul(Ev.R, Ev.R),
                                   Sub(Add(Mul(Ev.r, Ev.r), Mul(Ev.d, Ev.d)), MulInt(Mul(Mul(Ev.r, Ev.d), Ev.ci), 2)),
                                   Mul(Dec(1, 9), Add(Mul(Ev.r, Ev.r), Mul(Ev.d, Ev.d)))))

VerdictNode ==
  LET target == IF Ev.asc = 1 THEN Neg(Ev.omega) ELSE Sub(FromInt(180), Ev.omega) IN
     Viol("WITNESS", Within(Mul(Ev.sa, Ev.sa), Ev.a, Mul(Dec(1, 12), Ev.a)))
\* mean anomaly at the returned time:  Mn = n dt,  n = 0.9856076686 / (a sqrt a)
\cup Viol("NODE_MEAN_ANOMALY", Within(Mul(Ev.Mn, Mul(Ev.a, Ev.sa)), Mul(Add(Dec(985607668, 9), Dec(6, 10)), Ev.dt),
                                      Mul(Dec(1, 9), Add(One, Abs(Mul(Ev.Mn, Mul(Ev.a, Ev.sa)))))))
\cup Viol("NODE_TRUE_ANOMALY", WithinMod(Ev.v2, target, 360, Dec(1, 6)))
\cup Viol("NODE_RADIUS", Rel(Ev.rr, Mul(Ev.a, Sub(One, Mul(Ev.e, Ev.cE))), Dec(1, 8)))

Verdict == CASE Ev.k = "kep" -> VerdictKep [] Ev.k = "vel" -> VerdictVel [] Ev.k = "len" -> VerdictLen
             [] Ev.k = "pha" -> VerdictPha [] Ev.k = "node" -> VerdictNode [] OTHER -> {"UNKNOWN_KIND"}
Init == TraceInit(0)
Next == StepWith(Verdict, 0)
Spec == Init /\ [][Next]_<<l, st>>
=============================================================================
