----------------------------- MODULE Trace_Orbit -----------------------------
(***************************************************************************)
(* C07 conformance.  Event kinds (pl = planet name, all numbers Fix):      *)
(*  "p":   t, L, B, R from geometric_heliocentric_position, per planet in  *)
(*         increasing t (daily or 1-second steps inside a run); a ecc inc  *)
(*         = the library's mean elements of date at t                      *)
(*  "kep": uv = unit vector of the VSOP87 position, uk = unit vector of    *)
(*         the two-body position from the library's own mean elements and  *)
(*         kepler_equation (wired by the harness), R and rk the distances  *)
(*  "sum": L B R (radians / AU, unreduced) from vsop_pos and from a direct *)
(*         term-by-term summation of the same tables (harness oracle)      *)
(*  "cor": longitudes/latitudes with and without the FK5 correction, the   *)
(*         apparent longitudes with and without nutation, dpsi, R          *)
(*  "tab": l1 = series' mean-longitude rate (rad / millennium), ltab =     *)
(*         element-table rate of date (deg / century), lsid = the rate in  *)
(*         the fixed J2000 equinox (sidereal), a = semi-major axis         *)
(***************************************************************************)
EXTENDS TraceKit, Orbit

Arcsec(x) == DivInt(x, 3600)

\* the mean orbit of date: the library's own mean elements (a, ecc, inc logged with the event), accepted only
\* if they agree with the linear model typed into Orbit.tla (Table 31.A) within its neglected T^2, T^3 terms
VerdictP ==
  LET c0 == Planet(Ev.pl)  T == Cent(Ev.t)
      c == [c0 EXCEPT !.a = Ev.a, !.e0 = Ev.ecc, !.e1 = Zero, !.i0 = Ev.inc, !.i1 = Zero] IN
     Viol("MEAN_ELEMENTS_SANE", /\ Within(Ev.a, c0.a, Mul(c0.a, Dec(2, 4)))
                                /\ Within(Ev.ecc, Ecc(c0, T), Dec(4, 3))
                                /\ Within(Ev.inc, Incl(c0, T), Dec(8, 2)))
\cup Viol("LONGITUDE_RANGE", LonRange(Ev.L))
\cup Viol("LATITUDE_BOUND", LatBound(c, T, Ev.B))
\cup Viol("RADIUS_BOUND", RadiusBound(c, T, Ev.R))
\cup (IF st.pl = Ev.pl /\ Lt(st.t, Ev.t) /\ Le(Sub(Ev.t, st.t), Dec(15, 1)) THEN
        LET dL == Mod(Sub(Ev.L, st.L), 360)
            dt == Sub(Ev.t, st.t)
        IN  Viol("LONGITUDE_INCREASES", Gt(dL, Zero) /\ Lt(dL, FromInt(180)))
        \* dL / dt within the rate bounds; dt may be as small as 1 s: scale both by 86400 first
       \cup Viol("DAILY_RATE", LET sdt == MulInt(dt, 86400) IN   \* seconds
                               \* r = dL / dt  <=>  r * sdt = dL * 86400; compare r through a quotient witness-free form:
                               \* bounds are homogeneous of degree 2 in r, so test them on (dL*86400) and scale k by sdt^2
                               RateBound([c EXCEPT !.n = Mul(c.n, sdt)], T, MulInt(dL, 86400)))
      ELSE {})

VerdictKep ==
  LET c == Planet(Ev.pl) IN
     Viol("WITNESS", Unit(Ev.uv) /\ Unit(Ev.uk))
\cup Viol("KEPLER_DIRECTION", Le(ChordSq(Ev.uv, Ev.uk), Chord2(c.ampd)))
\cup Viol("KEPLER_DISTANCE", Le(Abs(Sub(Ev.R, Ev.rk)), Mul(Ev.R, Dec(1, 2))))

VerdictSum ==
  LET allow(raw) == Add(Dec(1, 11), Mul(Abs(raw), Dec(1, 14))) IN      \* 1e-11 rad + 64 ulp of the unreduced series value
     Viol("DIRECT_SUMMATION", /\ Within(Ev.L, Ev.Ld, allow(Ev.L)) /\ Within(Ev.B, Ev.Bd, allow(Ev.B))
                              /\ Within(Ev.R, Ev.Rd, allow(Ev.R)))

VerdictCor ==
  LET dl == Sub(Ev.Lf, Ev.L0)          \* FK5 correction in longitude (deg), values unwrapped by the harness
      db == Sub(Ev.Bf, Ev.B0)
      ab == Sub(Ev.La0, Ev.Lf)         \* aberration (no nutation)
      nu == Sub(Ev.La1, Ev.La0)        \* nutation in longitude
  IN Viol("FK5_SIZE", /\ Ge(dl, Arcsec(Neg(Dec(974, 4)))) /\ Le(dl, Arcsec(Neg(Dec(833, 4))))
                      /\ Le(Abs(db), Arcsec(Dec(554, 4))))
\* ... and exactly the documented one (Meeus 32.3):  L' = L - 1.397 T - 0.00031 T^2,
\*   dL = -0.09033" + 0.03916" (cos L' + sin L') tan B,   dB = 0.03916" (cos L' - sin L')       (to 2e-4 arcsec)
\cup Viol("WITNESS", /\ Within(Add(Mul(Ev.cLp, Ev.cLp), Mul(Ev.sLp, Ev.sLp)), One, Dec(1, 12))
                     /\ Within(Ev.Lp, Sub(Sub(Ev.L0, Mul(Dec(1397, 3), Ev.T)), Mul(Dec(31, 5), Mul(Ev.T, Ev.T))), Dec(1, 9)))
\cup Viol("FK5_FORMULA",
          /\ Within(MulInt(dl, 3600), Add(Neg(Dec(9033, 5)), Mul(Mul(Dec(3916, 5), Add(Ev.cLp, Ev.sLp)), Ev.tB)), Dec(2, 4))
          /\ Within(MulInt(db, 3600), Mul(Dec(3916, 5), Sub(Ev.cLp, Ev.sLp)), Dec(2, 4)))
\cup Viol("ABERRATION_SIZE", Within(Mul(MulInt(ab, 3600), Ev.R), Neg(Dec(204898, 4)), Dec(2, 3)))
\cup Viol("NUTATION_TERM", Within(nu, Ev.dpsi, Dec(1, 9)))

VerdictTab ==
  LET c == Planet(Ev.pl)
      \* rate of the series in deg / century:  l1 * (180 / pi) / 10
      lhs == MulInt(Ev.l1, 18)                         \* l1 * 180 / 10
      rhs == Mul(Ev.ltab, PiF)
      nrad == DivInt(Mul(DivInt(Ev.lsid, 36525), PiF), 180)     \* sidereal mean motion (fixed-equinox table), rad / day
      n2a3 == Mul(Mul(nrad, nrad), Mul(Mul(Ev.a, Ev.a), Ev.a))
      tol3 == IF Ev.pl \in {"Saturn", "Uranus", "Neptune"} THEN Dec(1, 2) ELSE Dec(1, 3)
  IN Viol("MEAN_LONGITUDE_RATE", Le(Abs(Sub(lhs, rhs)), Mul(Abs(rhs), Dec(1, 6))))
\cup Viol("KEPLER_THIRD_LAW", Le(Abs(Sub(n2a3, GaussK2)), Mul(GaussK2, tol3)))
\cup Viol("TABLE_MATCHES_SPEC", Within(Ev.a, c.a, Mul(c.a, Dec(1, 4))))

Verdict == CASE Ev.k = "p" -> VerdictP [] Ev.k = "kep" -> VerdictKep [] Ev.k = "sum" -> VerdictSum
             [] Ev.k = "cor" -> VerdictCor [] Ev.k = "tab" -> VerdictTab [] OTHER -> {"UNKNOWN_KIND"}
Advance == IF Ev.k = "p" THEN [pl |-> Ev.pl, t |-> Ev.t, L |-> Ev.L] ELSE [pl |-> "", t |-> Zero, L |-> Zero]
Init == TraceInit([pl |-> "", t |-> Zero, L |-> Zero])
Next == StepWith(Verdict, Advance)
Spec == Init /\ [][Next]_<<l, st>>
=============================================================================
