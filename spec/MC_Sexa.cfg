SPECIFICATION Spec
INVARIANT PrintLaw
CHECK_DEADLOCK FALSE
