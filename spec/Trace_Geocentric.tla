--------------------------- MODULE Trace_Geocentric ---------------------------
(***************************************************************************)
(* C09 conformance: geocentric positions against the library's own         *)
(* heliocentric vectors (light-time included).  Vectors are Cartesian      *)
(* witnesses built by the harness from the angles/distances the library    *)
(* returned; the spec verifies their norms against the logged distances.   *)
(*  "pl":  planet: E = Earth(t), P = planet(t - tau) heliocentric ecliptic  *)
(*         of date, RE RP their radius vectors, delta = |P - E|, tau; u =  *)
(*         unit vector of the returned (ra, dec); ce se = cos/sin of the   *)
(*         true obliquity; us = apparent Sun direction (ecliptic); elong   *)
(*         (deg) with cel sel = cos/sin elong; jb ja = caller's JDE before *)
(*         and after the call                                              *)
(*  "plu": Pluto, equatorial J2000: Pq = Pluto(t - tau) rotated by the     *)
(*         J2000 obliquity (c0 s0), S = Sun.rectangular_coordinates_j2000  *)
(*  "min": minor body on any conic: S as above (RS its norm, us its unit   *)
(*         vector), u returned direction, per / qer = unit vectors towards *)
(*         perihelion and 90 deg ahead of it in the orbit plane            *)
(*         (equatorial J2000, from i, node, argument of perihelion), q e,  *)
(*         dtp = t - tau - T (days), delta tau, and the harness's own      *)
(*         solution of Kepler's / Barker's equation as a witness           *)
(***************************************************************************)
EXTENDS TraceKit, Sphere, Kepler

LightTime == Dec(57755183, 10)                   \* 0.0057755183 day per AU
Rad(m, k) == DivInt(Mul(Dec(m, k), PiS), 180)
Norm2(v) == Dot(v, v)
Near(x, y, tol) == Le(Abs(Sub(x, y)), tol)

\* |delta * u - D| <= delta * tol   (u unit, D the vector it must point along)
PointsAlong(u, D, delta, tol) ==
  LET d == <<Sub(Mul(delta, u[1]), D[1]), Sub(Mul(delta, u[2]), D[2]), Sub(Mul(delta, u[3]), D[3])>>
      lim == Mul(delta, tol)
  IN Le(Norm2(Scale(d, 10000)), Norm2(<<MulInt(lim, 10000), Zero, Zero>>))

ElongOK(u, us, cel, sel, tol) == Le(Abs(Sub(Dot(u, us), cel)), Mul(tol, Add(Abs(sel), tol)))

\* The true obliquity handed over as a witness (eps, degrees; ce se its cosine and sine) is validated HERE: Laskar's
\* polynomial for the mean obliquity (arcsec, u = 10000 Julian years from J2000) plus at most 0.003 deg of nutation in
\* obliquity (9.2" main term), and (ce, se) by a Taylor step from cos/sin 23.44 deg (|eps - 23.44| < 0.6 deg: d^6/720 < 1e-15)
Obl0(jde) ==
  LET u == DivInt(DivInt(Sub(jde, FromInt(2451545)), 36525), 100)
      H(c, r) == Add(c, Mul(u, r))
  IN DivInt(H(Add(FromInt(84381), Dec(448, 3)), H(Neg(Add(FromInt(4680), Dec(93, 2))), H(Neg(Dec(155, 2)), H(Add(FromInt(1999), Dec(25, 2)),
       H(Neg(Dec(5138, 2)), H(Neg(Dec(24967, 2)), H(Neg(Dec(3905, 2)), H(Dec(712, 2), H(Dec(2787, 2), H(Dec(579, 2), Dec(245, 2))))))))))), 3600)
C2344 == Add(Dec(917477140, 9), Dec(5229186, 16))           \* cos 23.44 deg = 0.9174771405229186
S2344 == Add(Dec(397788507, 9), Dec(3979497, 16))           \* sin 23.44 deg = 0.3977885073979497
ObliquityWitnessOK(eps, ce, se, jde) ==
  LET d  == DivInt(Mul(Sub(eps, Dec(2344, 2)), PiS), 180)
      d2 == Mul(d, d)
      cd == Add(Sub(One, DivInt(d2, 2)), DivInt(Mul(d2, d2), 24))
      sd == Mul(d, Add(Sub(One, DivInt(d2, 6)), DivInt(Mul(d2, d2), 120)))
  IN /\ Le(Abs(Sub(eps, Obl0(jde))), Dec(3, 3))
     /\ Le(Abs(Sub(eps, Dec(2344, 2))), Dec(6, 1))
     /\ Near(ce, Sub(Mul(C2344, cd), Mul(S2344, sd)), Dec(1, 12))
     /\ Near(se, Add(Mul(S2344, cd), Mul(C2344, sd)), Dec(1, 12))

VerdictPl ==
  LET D == VSub(Ev.P, Ev.E)
      ue == RotX(Ev.u, Ev.ce, Ev.se)
      tol == Rad(2, 2)
  IN Viol("WITNESS", /\ IsUnit(Ev.u) /\ IsUnit(Ev.us) /\ IsSC(Ev.ce, Ev.se) /\ IsSC(Ev.cel, Ev.sel)
                     /\ Near(Norm2(Ev.E), Mul(Ev.RE, Ev.RE), Dec(1, 10)) /\ Near(Norm2(Ev.P), Mul(Ev.RP, Ev.RP), Mul(Dec(1, 10), Mul(Ev.RP, Ev.RP)))
                     /\ Near(Mul(Ev.delta, Ev.delta), Norm2(D), Mul(Dec(1, 10), Norm2(D))))
\cup Viol("WITNESS_OBLIQUITY", ObliquityWitnessOK(Ev.eps, Ev.ce, Ev.se, Ev.jb))
\cup Viol("LIGHT_TIME", Near(Ev.tau, Mul(LightTime, Ev.delta), Dec(1, 7)))
\cup Viol("GEOCENTRIC_DIRECTION", PointsAlong(ue, D, Ev.delta, tol))
\cup Viol("ELONGATION_VALUE", ElongOK(ue, Ev.us, Ev.cel, Ev.sel, tol))
\cup Viol("ELONGATION_COARSE", ElongOK(ue, Ev.us, Ev.cel, Ev.sel, Rad(5, 1)))      \* enforced for every planet (see KNOWN_FINDINGS)
\cup Viol("ELONGATION_RANGE", /\ Ge(Ev.elong, Zero) /\ Le(Ev.elong, FromInt(180))
                             /\ (Ev.pl = "Mercury" => Le(Ev.elong, Dec(285, 1))) /\ (Ev.pl = "Venus" => Le(Ev.elong, FromInt(48))))
\cup Viol("EPOCH_NOT_SHIFTED", Ev.ja = Ev.jb)

VerdictPlu ==
  LET G == <<Add(Ev.Pq[1], Ev.S[1]), Add(Ev.Pq[2], Ev.S[2]), Add(Ev.Pq[3], Ev.S[3])>> IN
     Viol("WITNESS", IsUnit(Ev.u) /\ Near(Mul(Ev.delta, Ev.delta), Norm2(G), Mul(Dec(1, 10), Norm2(G)))
                     /\ Near(Norm2(Ev.Pq), Mul(Ev.RP, Ev.RP), Mul(Dec(1, 9), Mul(Ev.RP, Ev.RP))))
\cup Viol("LIGHT_TIME", Near(Ev.tau, Mul(LightTime, Ev.delta), Dec(1, 7)))
\cup Viol("GEOCENTRIC_DIRECTION", PointsAlong(Ev.u, G, Ev.delta, Rad(1, 4)))
\cup Viol("EPOCH_NOT_SHIFTED", Ev.ja = Ev.jb)

\* Minor body.  The harness solves Kepler's (Barker's) equation itself for the time t - tau - T and hands over the
\* solution as a WITNESS (E with sE cE, or s = tan(v/2)); TLC verifies that the witness satisfies the equation, rebuilds
\* the heliocentric position H from it in the orbit frame (per, qer), adds the library's own Sun vector S and requires
\* the returned direction u to point along H + S to 1e-4 degree.  (An earlier form decoded the distance from the
\* returned direction through the plane equation; that is ill-conditioned when the line of sight is close to the
\* orbital plane and raised false alarms in the thorough tier - see DESIGN section 7.)
VerdictMin ==
  IF Ev.oc # "ok" THEN {"TOTAL"} ELSE
  LET xy == IF Ev.conic = "parabola"
            THEN <<Mul(Ev.q, Sub(One, Mul(Ev.s, Ev.s))), MulInt(Mul(Ev.q, Ev.s), 2)>>           \* r cos v, r sin v
            ELSE <<Mul(Ev.a, Sub(Ev.cE, Ev.e)), Mul(Ev.b, Ev.sE)>>
      H == <<Add(Mul(xy[1], Ev.per[1]), Mul(xy[2], Ev.qer[1])), Add(Mul(xy[1], Ev.per[2]), Mul(xy[2], Ev.qer[2])),
             Add(Mul(xy[1], Ev.per[3]), Mul(xy[2], Ev.qer[3]))>>
      G == <<Add(H[1], Ev.S[1]), Add(H[2], Ev.S[2]), Add(H[3], Ev.S[3])>>
      witness ==
        /\ IsUnit(Ev.u) /\ IsUnit(Ev.per) /\ IsUnit(Ev.qer) /\ IsUnit(Ev.us) /\ Le(Abs(Dot(Ev.per, Ev.qer)), Dec(1, 10))
        /\ Near(Mul(Ev.delta, Ev.delta), Norm2(G), Mul(Dec(1, 10), Norm2(G)))
        /\ Near(Norm2(Ev.S), Mul(Ev.RS, Ev.RS), Dec(1, 10)) /\ IsSC(Ev.cel, Ev.sel)
        /\ Near(Mul(Ev.RS, Ev.us[1]), Ev.S[1], Dec(1, 10)) /\ Near(Mul(Ev.RS, Ev.us[2]), Ev.S[2], Dec(1, 10))
        /\ Near(Mul(Ev.RS, Ev.us[3]), Ev.S[3], Dec(1, 10))
        /\ IF Ev.conic = "parabola"
           THEN \* Barker: s^3 + 3 s = W, W = 0.03649116245 (t - tau - T) / (q sqrt q)
                /\ Near(Mul(Ev.sq, Ev.sq), Ev.q, Mul(Dec(1, 12), Ev.q))
                /\ Near(Mul(Add(Mul(Mul(Ev.s, Ev.s), Ev.s), MulInt(Ev.s, 3)), Mul(Ev.q, Ev.sq)),
                        Mul(Add(Dec(364911624, 10), Dec(5, 11)), Ev.dtp),
                        Mul(Dec(1, 9), Add(One, Abs(Ev.dtp))))
           ELSE \* Kepler: E - e sin E = M (degrees, modulo whole turns), M a sqrt(a) = 0.9856076686 (t - tau - T)
                /\ IsSC(Ev.sE, Ev.cE)
                /\ Near(Mul(Ev.a, Sub(One, Ev.e)), Ev.q, Mul(Dec(1, 10), Ev.a))
                /\ Near(Mul(Ev.b, Ev.b), Mul(Mul(Ev.a, Ev.a), Sub(One, Mul(Ev.e, Ev.e))), Mul(Dec(1, 10), Mul(Ev.a, Ev.a)))
                /\ Near(Mul(Ev.sa, Ev.sa), Ev.a, Mul(Dec(1, 11), Ev.a))
                /\ Near(Mul(Ev.Mraw, Mul(Ev.a, Ev.sa)), Mul(Add(Dec(985607668, 9), Dec(6, 10)), Ev.dtp),
                        Mul(Dec(1, 9), Add(One, Abs(Mul(Ev.Mraw, Mul(Ev.a, Ev.sa))))))
                /\ WithinMod(Sub(Ev.E, Mul(Mul(Ev.e, Ev.sE), Rad2Deg)), Ev.Mraw, 360, Dec(1, 9))
  IN Viol("WITNESS", witness)
\cup Viol("LIGHT_TIME", Near(Ev.tau, Mul(LightTime, Ev.delta), Dec(1, 7)))
\cup Viol("GEOCENTRIC_DIRECTION", PointsAlong(Ev.u, G, Ev.delta, Rad(1, 4)))
\cup Viol("ELONGATION_VALUE", ElongOK(Ev.u, Ev.us, Ev.cel, Ev.sel, Rad(2, 2)))
\cup Viol("ELONGATION_RANGE", Ge(Ev.elong, Zero) /\ Le(Ev.elong, FromInt(180)))
\cup Viol("EPOCH_NOT_SHIFTED", Ev.ja = Ev.jb)

Verdict == CASE Ev.k = "pl" -> VerdictPl [] Ev.k = "plu" -> VerdictPlu [] Ev.k = "min" -> VerdictMin [] OTHER -> {"UNKNOWN_KIND"}
Init == TraceInit(0)
Next == StepWith(Verdict, 0)
Spec == Init /\ [][Next]_<<l, st>>
=============================================================================
