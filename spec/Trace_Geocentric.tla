--------------------------- MODULE Trace_Geocentric ---------------------------
(***************************************************************************)
(* C09 conformance: geocentric positions against the library's own         *)
(* heliocentric vectors (light-time included).  Vectors are Cartesian      *)
(* witnesses built by the harness from the angles/distances the library    *)
(* returned; the spec verifies their norms against the logged distances.   *)
(*  "pl":  planet: E = Earth(t), P = planet(t - tau) heliocentric ecliptic  *)
(*         of date, RE RP their radius vectors, delta = |P - E|, tau; u =  *)
(*         unit vector of the returned (ra, dec); ce se = cos/sin of the   *)
(*         true obliquity; us = apparent Sun direction (ecliptic); elong   *)
(*         (deg) with cel sel = cos/sin elong; jb ja = caller's JDE before *)
(*         and after the call                                              *)
(*  "plu": Pluto, equatorial J2000: Pq = Pluto(t - tau) rotated by the     *)
(*         J2000 obliquity (c0 s0), S = Sun.rectangular_coordinates_j2000  *)
(*  "min": minor body on any conic: S as above, u returned direction,      *)
(*         nrm / per / qer = unit vectors of the orbit normal, perihelion  *)
(*         and the in-plane direction 90 deg ahead of it (equatorial       *)
(*         J2000, from i, node, argument of perihelion), delta = geocentric*)
(*         distance solving the plane equation, r = |H|, q e, dtp = t -    *)
(*         tau - T (days), elements-dependent witnesses (see below)        *)
(***************************************************************************)
EXTENDS TraceKit, Sphere, Kepler

LightTime == Dec(57755183, 10)                   \* 0.0057755183 day per AU
Rad(m, k) == DivInt(Mul(Dec(m, k), PiS), 180)
Norm2(v) == Dot(v, v)
Near(x, y, tol) == Le(Abs(Sub(x, y)), tol)

\* |delta * u - D| <= delta * tol   (u unit, D the vector it must point along)
PointsAlong(u, D, delta, tol) ==
  LET d == <<Sub(Mul(delta, u[1]), D[1]), Sub(Mul(delta, u[2]), D[2]), Sub(Mul(delta, u[3]), D[3])>>
      lim == Mul(delta, tol)
  IN Le(Norm2(Scale(d, 10000)), Norm2(<<MulInt(lim, 10000), Zero, Zero>>))

ElongOK(u, us, cel, sel, tol) == Le(Abs(Sub(Dot(u, us), cel)), Mul(tol, Add(Abs(sel), tol)))

VerdictPl ==
  LET D == VSub(Ev.P, Ev.E)
      ue == RotX(Ev.u, Ev.ce, Ev.se)
      tol == Rad(2, 2)
  IN Viol("WITNESS", /\ IsUnit(Ev.u) /\ IsUnit(Ev.us) /\ IsSC(Ev.ce, Ev.se) /\ IsSC(Ev.cel, Ev.sel)
                     /\ Near(Norm2(Ev.E), Mul(Ev.RE, Ev.RE), Dec(1, 10)) /\ Near(Norm2(Ev.P), Mul(Ev.RP, Ev.RP), Mul(Dec(1, 10), Mul(Ev.RP, Ev.RP)))
                     /\ Near(Mul(Ev.delta, Ev.delta), Norm2(D), Mul(Dec(1, 10), Norm2(D))))
\cup Viol("LIGHT_TIME", Near(Ev.tau, Mul(LightTime, Ev.delta), Dec(1, 7)))
\cup Viol("GEOCENTRIC_DIRECTION", PointsAlong(ue, D, Ev.delta, tol))
\cup Viol("ELONGATION_VALUE", ElongOK(ue, Ev.us, Ev.cel, Ev.sel, tol))
\cup Viol("ELONGATION_RANGE", /\ Ge(Ev.elong, Zero) /\ Le(Ev.elong, FromInt(180))
                             /\ (Ev.pl = "Mercury" => Le(Ev.elong, Dec(285, 1))) /\ (Ev.pl = "Venus" => Le(Ev.elong, FromInt(48))))
\cup Viol("EPOCH_NOT_SHIFTED", Ev.ja = Ev.jb)

VerdictPlu ==
  LET G == <<Add(Ev.Pq[1], Ev.S[1]), Add(Ev.Pq[2], Ev.S[2]), Add(Ev.Pq[3], Ev.S[3])>> IN
     Viol("WITNESS", IsUnit(Ev.u) /\ Near(Mul(Ev.delta, Ev.delta), Norm2(G), Mul(Dec(1, 10), Norm2(G)))
                     /\ Near(Norm2(Ev.Pq), Mul(Ev.RP, Ev.RP), Mul(Dec(1, 9), Mul(Ev.RP, Ev.RP))))
\cup Viol("LIGHT_TIME", Near(Ev.tau, Mul(LightTime, Ev.delta), Dec(1, 7)))
\cup Viol("GEOCENTRIC_DIRECTION", PointsAlong(Ev.u, G, Ev.delta, Rad(1, 4)))
\cup Viol("EPOCH_NOT_SHIFTED", Ev.ja = Ev.jb)

\* Minor body.  H = delta u - S is the heliocentric position one light-time earlier.
\* It must lie in the orbital plane, on the conic r (1 + e cos v) = q (1 + e) and at the place Kepler's
\* (or Barker's) equation assigns to the time t - tau - T.
VerdictMin ==
  IF Ev.oc # "ok" THEN (IF Ev.oc = "behind" THEN {"IN_ORBITAL_PLANE"} ELSE {"TOTAL"}) ELSE
  LET H == <<Sub(Mul(Ev.delta, Ev.u[1]), Ev.S[1]), Sub(Mul(Ev.delta, Ev.u[2]), Ev.S[2]), Sub(Mul(Ev.delta, Ev.u[3]), Ev.S[3])>>
      xp == Dot(H, Ev.per)          \* r cos v
      yp == Dot(H, Ev.qer)          \* r sin v
      tolr == Mul(Rad(1, 4), Add(Ev.r, One))
  IN Viol("WITNESS", /\ IsUnit(Ev.u) /\ IsUnit(Ev.nrm) /\ IsUnit(Ev.per) /\ IsUnit(Ev.qer)
                     /\ Le(Abs(Dot(Ev.nrm, Ev.per)), Dec(1, 10)) /\ Le(Abs(Dot(Ev.nrm, Ev.qer)), Dec(1, 10)) /\ Le(Abs(Dot(Ev.per, Ev.qer)), Dec(1, 10))
                     /\ Near(Mul(Ev.r, Ev.r), Norm2(H), Mul(Dec(1, 9), Norm2(H))) /\ Gt(Ev.delta, Zero))
\cup Viol("IN_ORBITAL_PLANE", Le(Abs(Dot(H, Ev.nrm)), tolr))
\cup Viol("ON_THE_CONIC", Near(Add(Ev.r, Mul(Ev.e, xp)), Mul(Ev.q, Add(One, Ev.e)), Mul(tolr, FromInt(2))))
\cup Viol("EPOCH_NOT_SHIFTED", Ev.ja = Ev.jb)
\cup (IF Ev.conic = "parabola"
      THEN \* Barker: s^3 + 3 s = W,  s = tan(v/2) = yp / (r + xp),  W = 3 k (t - tau - T) / (sqrt(2) q^1.5);
           \* here in the form Meeus uses: W = 0.03649116245 dtp / (q sqrt q);  sq = sqrt(q) witness
           LET den == Add(Ev.r, xp)
               \* cross-multiplied by den^3 q sq:  (yp^3 + 3 yp den^2) q sq = 0.03649116245 dtp den^3
               lhs == Mul(Mul(Add(Mul(Mul(yp, yp), yp), MulInt(Mul(yp, Mul(den, den)), 3)), Ev.q), Ev.sq)
               rhs == Mul(Mul(Add(Dec(364911624, 10), Dec(5, 11)), Ev.dtp), Mul(Mul(den, den), den))
           IN Viol("WITNESS", Near(Mul(Ev.sq, Ev.sq), Ev.q, Mul(Dec(1, 12), Ev.q)))
         \cup Viol("TIME_ALONG_ORBIT", Near(lhs, rhs, Mul(Dec(3, 5), Add(Abs(rhs), Mul(Mul(den, den), den)))))
      ELSE \* ellipse: a = q / (1 - e); e a cos E = a - r;  b sin E = yp with b = a sqrt(1 - e^2) (witness);
           \* then E - e sin E = n dtp (mod 360) with n = 0.9856076686 / (a sqrt a) deg/day (witness sa = sqrt a)
           LET a == Ev.a IN
           Viol("WITNESS", /\ Near(Mul(a, Sub(One, Ev.e)), Ev.q, Mul(Dec(1, 10), a))
                           /\ Near(Mul(Ev.b, Ev.b), Mul(Mul(a, a), Sub(One, Mul(Ev.e, Ev.e))), Mul(Dec(1, 10), Mul(a, a)))
                           /\ Near(Mul(Ev.sa, Ev.sa), a, Mul(Dec(1, 11), a)) /\ SC(Ev.sE, Ev.cE))
      \cup Viol("ECCENTRIC_ANOMALY", /\ Near(Mul(Mul(Ev.e, a), Ev.cE), Sub(a, Ev.r), Mul(tolr, FromInt(4)))
                                     /\ Near(Mul(Ev.b, Ev.sE), yp, Mul(tolr, FromInt(4))))
      \cup Viol("TIME_ALONG_ORBIT",      \* M a sqrt(a) = 0.9856076686 dtp, M = E - e sin E (deg), modulo whole revolutions
                LET M == Sub(Ev.E, Mul(Mul(Ev.e, Ev.sE), Rad2Deg))
                IN /\ Near(Mul(Ev.Mraw, Mul(a, Ev.sa)), Mul(Add(Dec(985607668, 9), Dec(6, 10)), Ev.dtp),
                           Mul(Dec(1, 9), Add(One, Abs(Mul(Ev.Mraw, Mul(a, Ev.sa))))))
                   /\ WithinMod(M, Ev.Mraw, 360, Dec(4, 4))))

Verdict == CASE Ev.k = "pl" -> VerdictPl [] Ev.k = "plu" -> VerdictPlu [] Ev.k = "min" -> VerdictMin [] OTHER -> {"UNKNOWN_KIND"}
Init == TraceInit(0)
Next == StepWith(Verdict, 0)
Spec == Init /\ [][Next]_<<l, st>>
=============================================================================
