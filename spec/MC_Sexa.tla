------------------------------ MODULE MC_Sexa ------------------------------
(* all values within +-25 fine units of every whole minute of selected     *)
(* degrees and of every whole second of selected minutes, n = 0..2:        *)
(* the carry model of dms_str meets the print law (no 60, half-unit        *)
(* read-back modulo 360).                                                   *)
EXTENDS Sexagesimal, TLC
VARIABLES n, d, m, s, off
Degs == {0, 1, 59, 179, 180, 358, 359}
Init == /\ n \in 0..2 /\ d \in Degs /\ m \in 0..59 /\ s \in {0, 1, 29, 58, 59} /\ off \in -25..25
Next == UNCHANGED <<n, d, m, s, off>>
Spec == Init /\ [][Next]_<<n, d, m, s, off>>
K == LET fine == 10 * Pow(n)
         k == (d * 3600 + m * 60 + s) * fine + off
         full == 360 * 3600 * fine
     IN IF k < 0 THEN k + full ELSE k
PrintLaw == ModelOK(K, n)
CarrySeen == TRUE
=============================================================================
