------------------------------- MODULE Interp -------------------------------
(***************************************************************************)
(* C12: the interpolating polynomial through n tabulated points, in exact  *)
(* fixed point.  Abscissae are transported as integers in QUARTER units    *)
(* (x = xq / 4) so that every divided difference divides by an integer;    *)
(* ordinates and query points are Fix.                                     *)
(***************************************************************************)
EXTENDS Fix, Sequences, FiniteSets

X(q) == DivInt(FromInt(q), 4)

\* ---- ordering law ---------------------------------------------------------------
IsAscending(xq) == \A i \in 1..(Len(xq) - 1) : xq[i] < xq[i + 1]
SamePoints(xq1, ys1, xq2, ys2) ==
  /\ Len(xq1) = Len(xq2) /\ Len(ys1) = Len(ys2) /\ Len(xq1) = Len(ys1)
  /\ {<<xq1[i], ys1[i]>> : i \in 1..Len(xq1)} = {<<xq2[i], ys2[i]>> : i \in 1..Len(xq2)}
HasDuplicates(xq) == Cardinality({xq[i] : i \in 1..Len(xq)}) < Len(xq)

\* ---- Newton form on an ascending table ----------------------------------------
\* divided differences, level by level (O(n^2)):  level 0 = ys,
\* level k [i] = (level k-1 [i+1] - level k-1 [i]) / (x[i+k] - x[i]),  (x_j - x_i) = (xq[j] - xq[i]) / 4
NextLevel(xq, prev, k) ==
  [i \in 1..(Len(prev) - 1) |-> MulInt(DivInt(Sub(prev[i + 1], prev[i]), xq[i + k] - xq[i]), 4)]
RECURSIVE CoefsFrom(_, _, _)
CoefsFrom(xq, lev, k) ==       \* coefficients c_k, c_k+1, ... given level k-1 (k = 1 for ys)
  IF Len(lev) = 1 THEN <<lev[1]>>
  ELSE <<lev[1]>> \o CoefsFrom(xq, NextLevel(xq, lev, k), k + 1)
Coefs(xq, ys) == CoefsFrom(xq, ys, 1)

\* ---- a generating polynomial given by integer coefficients in quarter units -------
\* pc[k+1] / 4 is the coefficient of x^k; value and derivative by Horner
RECURSIVE PolyVD(_, _, _)
PolyVD(pc, x, k) ==
  IF k > Len(pc) THEN <<Zero, Zero>>
  ELSE LET nx == PolyVD(pc, x, k + 1)
       IN <<Add(X(pc[k]), Mul(x, nx[1])), Add(nx[1], Mul(x, nx[2]))>>
PolyEval(pc, x)  == PolyVD(pc, x, 1)[1]
PolyDeriv(pc, x) == PolyVD(pc, x, 1)[2]

\* value and derivative at x by the nested (Horner) recursion
\*   P_k = c_k + (x - x_k) P_{k+1},   P'_k = P_{k+1} + (x - x_k) P'_{k+1}
RECURSIVE PD(_, _, _, _)
PD(c, xq, x, k) ==
  IF k = Len(c) THEN <<c[k], Zero>>
  ELSE LET nx == PD(c, xq, x, k + 1)
           dx == Sub(x, X(xq[k]))
       IN <<Add(c[k], Mul(dx, nx[1])), Add(nx[1], Mul(dx, nx[2]))>>
Eval(c, xq, x)  == PD(c, xq, x, 1)[1]
Deriv(c, xq, x) == PD(c, xq, x, 1)[2]

\* ---- the effective search interval: [min, max] of the two limits clipped to the table
EffLo(xl, xh, xq) == Max(Min(xl, xh), X(xq[1]))
EffHi(xl, xh, xq) == Min(Max(xl, xh), X(xq[Len(xq)]))
Inside(r, lo, hi) == Le(Sub(lo, Dec(1, 12)), r) /\ Le(r, Add(hi, Dec(1, 12)))
SignChange(a, b) == (Sgn(a) = 1 /\ Sgn(b) = -1) \/ (Sgn(a) = -1 /\ Sgn(b) = 1)
=============================================================================
