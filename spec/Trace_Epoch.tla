----------------------------- MODULE Trace_Epoch -----------------------------
(***************************************************************************)
(* C02 conformance (single-call and sorted-sweep judgments).  The abstract *)
(* value of an Epoch is an instant in days (Fix).                          *)
(*  "rt":    x = JDE given (Fix); stored = Epoch(x).jde(); f = fields      *)
(*           <<y, m, d, h, mi>> of get_full_date(), sec (Fix); back =      *)
(*           jde() of the Epoch rebuilt from those fields (Fix), bok = 1 if that call returned; *)
(*           events of one trace are sorted by x                           *)
(*  "forms": fields y m d h mi and sec (Fix); js = JDE (Fix) obtained from *)
(*           each documented input form, nm = the form names               *)
(*  "arith": x, off (Fix); sum, diff1 = (e+off)-e, diff2 = e-(e-off),      *)
(*           radd, iadd, isub, subj = jde of (e-off)                       *)
(*  "cmp":   x1, x2 (Fix) and the six comparison results lt le eq ne gt ge *)
(***************************************************************************)
EXTENDS TraceKit, Computus, Fix

Tol8 == Dec(1, 8)
Tol9 == Dec(1, 9)
Half == Dec(5, 1)
\* instant of civil fields, in days:  jdn - 1/2 + h/24 + mi/1440 + s/86400
Recompose(yy, mm, dd, hh, mi, sec) ==
  Add(Sub(FromInt(JDNOf(yy, mm, dd)), Half),
      Add(DivInt(FromInt(60 * hh + mi), 1440), DivInt(sec, 86400)))

FieldsRange(ev) ==
  /\ IsCivil(ev.f[1], ev.f[2], ev.f[3])
  /\ ev.f[4] \in 0..23 /\ ev.f[5] \in 0..59
  /\ IsFix(ev.sec) /\ Ge(ev.sec, Zero) /\ Lt(ev.sec, FromInt(60))

\* lexicographic order of two field tuples (with Fix seconds)
RECURSIVE LexLe(_, _, _)
LexLe(p, q, i) == IF i > 5 THEN TRUE
                  ELSE IF p[i] < q[i] THEN TRUE ELSE IF p[i] > q[i] THEN FALSE ELSE LexLe(p, q, i + 1)
TupleLe(pf, ps, qf, qs) == IF pf = qf THEN Le(ps, qs) ELSE LexLe(pf, qf, 1)

Bool(b) == IF b THEN 1 ELSE 0

Verdict ==
  CASE Ev.k = "rt" ->
       IF Ev.ok = 0 THEN {"TOTAL"} ELSE
         Viol("FIELDS_RANGE", FieldsRange(Ev))
    \cup Viol("FIELDS_INSTANT", FieldsRange(Ev) =>
              Within(Recompose(Ev.f[1], Ev.f[2], Ev.f[3], Ev.f[4], Ev.f[5], Ev.sec), Ev.x, Tol8))
    \cup Viol("STORED_INSTANT", Within(Ev.stored, Ev.x, Tol8))
    \cup Viol("ROUND_TRIP", Ev.bok = 1 /\ Within(Ev.back, Ev.x, Tol8))
    \cup Viol("DATE_MONOTONE", (st.k = "rt" /\ Le(st.x, Ev.x)) => TupleLe(st.f, st.sec, Ev.f, Ev.sec))
  [] Ev.k = "forms" ->
         Viol("FORMS_TOTAL", \A i \in 1..Len(Ev.js) : Ev.okf[i] = 1)
    \cup Viol("FORMS_AGREE", \A i \in 1..Len(Ev.js) : Ev.okf[i] = 1 => Within(Ev.js[i], Ev.js[1], Tol9))
    \cup Viol("FORMS_VALUE", Ev.okf[1] = 1 =>
              Within(Ev.js[1], Recompose(Ev.y, Ev.m, Ev.d, Ev.h, Ev.mi, Ev.sec), Tol8))
  [] Ev.k = "arith" ->
         Viol("ADD_TRANSLATES", Within(Ev.sum, Add(Ev.x, Ev.off), Tol8) /\ Within(Ev.subj, Sub(Ev.x, Ev.off), Tol8))
    \cup Viol("ADD_SUB_INVERSE", Within(Ev.diff1, Ev.off, Tol8) /\ Within(Ev.diff2, Ev.off, Tol8))
    \cup Viol("RADD_AGREES", Within(Ev.radd, Ev.sum, Tol9))
    \cup Viol("INPLACE_AGREES", Within(Ev.iadd, Ev.sum, Tol9) /\ Within(Ev.isub, Ev.subj, Tol9))
    \* "(e + x) - e": the same e on both sides, i.e. none of the nine operations above changed it (unch logged by the harness)
    \cup Viol("OPERAND_UNCHANGED", Ev.unch = 1)
  [] Ev.k = "cmp" ->
       LET c == Cmp(Ev.x1, Ev.x2) IN
         Viol("ORDER_LT", Ev.lt = Bool(c < 0) /\ Ev.gt = Bool(c > 0))
    \cup Viol("ORDER_LE", Ev.le = Bool(c <= 0) /\ Ev.ge = Bool(c >= 0))
    \* == and != carry the documented tolerance: judged only for identical or well separated instants (close = 0)
    \cup Viol("ORDER_EQ", Ev.close = 1 \/ (Ev.eq = Bool(c = 0) /\ Ev.ne = Bool(c # 0)))
    \cup Viol("ORDER_EQ_NE_COMPLEMENT", Ev.eq + Ev.ne = 1)
  [] OTHER -> {"UNKNOWN_KIND"}

Advance == IF Ev.k = "rt" /\ Ev.ok = 1 THEN [k |-> "rt", x |-> Ev.x, f |-> Ev.f, sec |-> Ev.sec]
           ELSE [k |-> "", x |-> Zero, f |-> <<0, 0, 0, 0, 0>>, sec |-> Zero]
Init == TraceInit([k |-> "", x |-> Zero, f |-> <<0, 0, 0, 0, 0>>, sec |-> Zero])
Next == StepWith(Verdict, Advance)
Spec == Init /\ [][Next]_<<l, st>>
=============================================================================
