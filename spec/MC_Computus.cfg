SPECIFICATION Spec
INVARIANT EasterRecipe
INVARIANT EasterSunday
INVARIANT EasterRange
INVARIANT EasterAnchors
INVARIANT HebrewYearLen
INVARIANT HebrewLeapLen
INVARIANT HebrewLoAduRosh
INVARIANT PesachWeekday
INVARIANT PesachInYear
INVARIANT HebrewAnchors
INVARIANT IslClosedForm
INVARIANT IslYearEnd
INVARIANT IslCycle
INVARIANT IslAnchors
CHECK_DEADLOCK FALSE
