--------------------------- MODULE Trace_Calendar ---------------------------
(***************************************************************************)
(* Conformance of pymeeus.Epoch with the civil-calendar chain (C01, C16). *)
(* One event per civil day, in calendar order, starting on a 1 January.   *)
(* The specification advances its own chain by NextDay for every event;   *)
(* the event's (y, m, d) must be the chain's day (clause WALK guards the  *)
(* harness itself), and everything the implementation returned for that   *)
(* day is judged against the chain state.                                 *)
(*                                                                         *)
(* kind "c01": j2n/j2s/j2l = 2*jde() for month as number / short / long   *)
(*   name (-1 not integral, -2 raised); rb = get_date() as <<y, m, d>>    *)
(*   (d = -1 if not integral); j12 = jde() of the 12h epoch (integral or  *)
(*   -1); mjd2 = 2*mjd(); nx = outcome of Epoch(y, m, d+1) (1 ok, 0       *)
(*   ValueError, 2 other) and nxj2 its 2*jde; lo = outcome of Epoch(y,m,0)*)
(* kind "c16": n = harness day-of-year counter; w0/w12/w23 = dow() at 0h, *)
(*   12h, 23:59:59; doy2/doy2h = 2*doy() at 0h / 12h; gd = get_doy(y,m,d);*)
(*   dd = doy2date(y, n); lp = leap(); yr0/yr12/yr23 = year() (Fix)       *)
(***************************************************************************)
EXTENDS TraceKit, Calendar, Fix

Cur == IF st.started THEN NextDay(st.c) ELSE Jan1(Ev.y)

VerdictC01(c, ev) ==
     Viol("WALK", ev.y = c.y /\ ev.m = c.m /\ ev.d = c.d /\ (st.started \/ (ev.m = 1 /\ ev.d = 1)))
\cup Viol("FWD_NUM",   ev.j2n = 2 * c.jdn - 1)
\cup Viol("FWD_SHORT", ev.j2s = 2 * c.jdn - 1)
\cup Viol("FWD_LONG",  ev.j2l = 2 * c.jdn - 1)
\cup Viol("READBACK",  ev.rb = <<c.y, c.m, c.d>>)
\cup Viol("NOON",      ev.j12 = c.jdn)
\cup Viol("MJD",       ev.mjd2 = 2 * c.jdn - 1 - 4800001)
\cup Viol("STEP",      st.started => ev.j2n = st.pj + 2)
\cup Viol("REFUSE_HI", \/ (c.y = 1582 /\ c.m = 10 /\ c.d \in 4..13)  \* 5..14 Oct 1582: not specified
                       \/ ev.nx = (IF c.d + 1 <= MLen(c.y, c.m) THEN 1 ELSE 0))
\cup Viol("NEXT_DAY",  (ev.nx = 1 /\ c.d + 1 <= MLen(c.y, c.m) /\ ~(c.y = 1582 /\ c.m = 10 /\ c.d \in 4..13))
                          => ev.nxj2 = 2 * c.jdn + 1)
\cup Viol("REFUSE_LO", ev.lo = 0)

VerdictC16(c, ev) ==
     Viol("WALK", ev.y = c.y /\ ev.m = c.m /\ ev.d = c.d /\ ev.n = c.doy
                  /\ (st.started \/ (ev.m = 1 /\ ev.d = 1)))
\cup Viol("DOW",       ev.w0 = c.dow)
\cup Viol("DOW_CONST", ev.w12 = c.dow /\ ev.w23 = c.dow)
\cup Viol("DOW_GREG",  c.y >= 1583 => ev.w0 = GregDow(c.y, c.m, c.d))
\cup Viol("DOY",       ev.doy2 = 2 * c.doy)
\cup Viol("DOY_FRAC",  ev.doy2h = 2 * c.doy + 1)
\cup Viol("GET_DOY",   ev.gd = c.doy)
\cup Viol("DOY2DATE",  ev.dd = <<c.y, c.m, c.d>>)
\cup Viol("DOY2DATE_FRACTION", ev.ddh = <<c.y, c.m, 2 * c.d + 1>>)       \* day-of-year n + 1/2 is noon of that civil day
\cup Viol("LEAP",      ev.lp = (IF Leap(c.y) THEN 1 ELSE 0))
\cup Viol("YEAR_INT",  /\ FloorInt(ev.yr0) = c.y /\ FloorInt(ev.yr12) = c.y /\ FloorInt(ev.yr23) = c.y
                       /\ (c.doy = 1 => ev.yr0 = FromInt(c.y)))
\cup Viol("YEAR_MONO", /\ Lt(ev.yr0, ev.yr12) /\ Lt(ev.yr12, ev.yr23)
                       /\ (st.started => Lt(st.pyr, ev.yr0)))

Verdict == IF Ev.k = "c01" THEN VerdictC01(Cur, Ev) ELSE VerdictC16(Cur, Ev)

Advance == [started |-> TRUE, c |-> Cur,
            pj  |-> IF Ev.k = "c01" THEN Ev.j2n ELSE 0,
            pyr |-> IF Ev.k = "c16" THEN Ev.yr23 ELSE Zero]

Init == TraceInit([started |-> FALSE, c |-> Start, pj |-> 0, pyr |-> Zero])
Next == StepWith(Verdict, Advance)
Spec == Init /\ [][Next]_<<l, st>>
=============================================================================
