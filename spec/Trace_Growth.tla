----------------------------- MODULE Trace_Growth -----------------------------
(***************************************************************************)
(* Behaviour of the library OUTSIDE the twenty listed properties, checked  *)
(* the same way (traces recorded from the real code, judged by TLC).  Not  *)
(* registered in MANIFEST.json: `./check GROWTH` reports into growth/.     *)
(*                                                                         *)
(*  "refr": atmospheric refraction pair.  h apparent elevation (deg),      *)
(*          t = apparent2true(h), a = true2apparent(t), tn = apparent2true *)
(*          (h + step); tp = apparent2true(h, p, T) with p (mbar), T (C)   *)
(*  "carr": Sun.beginning_synodic_rotation(n) and (n + 1)                  *)
(*  "epk":  Epoch views: x = jde; fl = float(e); i = int(e); mjd; hq =     *)
(*          hash(e) = hash(Epoch(jde)) (0/1)                               *)
(*  "angv": Angle views: v; fl = float(a); i = int(a); r = round(a, nd);   *)
(*          ab = abs(a)                                                    *)
(*  "mag":  planet magnitude at (r, d), (10 r, d), (r, 10 d)               *)
(*  "moonk": illuminated fraction k and bright-limb angle chi at a random  *)
(*          epoch, and k at the library's own new and full moon            *)
(*  "sunphys", "ring", "libr": see the comments at their verdicts           *)
(*  "jsat": Galilean satellites, jovicentric rectangular positions (in     *)
(*          Jupiter radii) at t and t + 1 minute                           *)
(***************************************************************************)
EXTENDS TraceKit, Calendar, Fix

Near(x, y, tol) == Le(Abs(Sub(x, y)), tol)
Norm2(v) == Add(Add(Mul(v[1], v[1]), Mul(v[2], v[2])), Mul(v[3], v[3]))
\* orbital radii of Io, Europa, Ganymede, Callisto in Jupiter radii
SatRadius == <<Dec(5906, 3), Dec(9397, 3), Dec(14989, 3), Dec(26364, 3)>>

VerdictRefr ==
     \* the air lifts: the true elevation is never above the apparent one (to 1e-6 deg at the zenith)
     Viol("REFRACTION_LIFTS", Le(Ev.t, Add(Ev.h, Dec(1, 6))))
\cup Viol("REFRACTION_SIZE", Le(Sub(Ev.h, Ev.t), Dec(6, 1)) /\ (Ge(Ev.h, FromInt(45)) => Le(Sub(Ev.h, Ev.t), Dec(2, 2))))
\cup Viol("REFRACTION_INVERSE_PAIR", Near(Ev.a, Ev.h, Dec(4, 3)))
\cup Viol("REFRACTION_MONOTONE", Gt(Ev.tn, Ev.t))
     \* R(p, T) = R(1010, 10) * p / 1010 * 283 / (273 + T), cross-multiplied
\cup Viol("REFRACTION_PRESSURE_TEMPERATURE",
          Near(Mul(Mul(Sub(Ev.h, Ev.tp), FromInt(1010)), Add(FromInt(273), Ev.T)),
               Mul(Mul(Sub(Ev.h, Ev.t), Ev.p), FromInt(283)), Dec(1, 6)))

VerdictCarr ==
     Viol("CARRINGTON_INCREASING", Gt(Ev.j1, Ev.j0))
\cup Viol("CARRINGTON_SPACING", Ge(Sub(Ev.j1, Ev.j0), Dec(2715, 2)) /\ Le(Sub(Ev.j1, Ev.j0), Dec(2740, 2)))
\cup Viol("CARRINGTON_MEAN_PERIOD",       \* rotation n began within 0.3 day of 2398140.227 + 27.2752316 n
          Near(Ev.j0, Add(Add(FromInt(2398140), Dec(227, 3)), Mul(Add(FromInt(27), Dec(2752316, 7)), FromInt(Ev.n))), Dec(3, 1)))

VerdictEpk ==
     Viol("EPOCH_FLOAT_IS_JDE", Ev.fl = Ev.x)
\cup Viol("EPOCH_INT_TRUNCATES", Ev.i = FloorInt(Ev.x))
\cup Viol("EPOCH_MJD", Near(Ev.mjd, Sub(Ev.x, Add(FromInt(2400000), Dec(5, 1))), Dec(1, 9)))
\cup Viol("EPOCH_HASH_OF_EQUAL_EPOCHS", Ev.hq = 1)

VerdictAngv ==
     Viol("ANGLE_FLOAT_IS_VALUE", Ev.fl = Ev.v)
\cup Viol("ANGLE_INT_TRUNCATES", Ev.i = (IF Ev.v.s = 1 THEN FloorInt(Ev.v) ELSE -FloorInt(Neg(Ev.v))))
\cup Viol("ANGLE_ABS", Ev.ab = Abs(Ev.v))
     \* round(a, nd) is within half a unit of the last kept decimal
\cup Viol("ANGLE_ROUND", Le(Abs(Sub(Ev.r, Ev.v)), Add(DivInt(Dec(1, Ev.nd), 2), Dec(1, 12))))

VerdictMag ==
  IF Ev.oc # "ok" THEN {"MAGNITUDE_TOTAL"} ELSE
     Viol("MAGNITUDE_INVERSE_SQUARE_SUN", Near(Sub(Ev.m10r, Ev.m), FromInt(5), Dec(1, 9)))
\cup Viol("MAGNITUDE_INVERSE_SQUARE_EARTH", Near(Sub(Ev.m10d, Ev.m), FromInt(5), Dec(1, 9)))

VerdictMoonk ==
     Viol("MOON_FRACTION_RANGE", Ge(Ev.kk, Zero) /\ Le(Ev.kk, One))
\cup Viol("MOON_LIMB_RANGE", Ge(Ev.chi, Zero) /\ Lt(Ev.chi, FromInt(360)))
\cup Viol("MOON_FRACTION_AT_NEW_AND_FULL", Le(Ev.knew, Dec(1, 2)) /\ Ge(Ev.kfull, Dec(99, 2)))

VerdictJsat ==
     Viol("SATELLITE_ORBIT_RADIUS",
          \A s \in 1..4 : LET r2 == Norm2(Ev.P[s])  lo == Mul(SatRadius[s], Dec(97, 2))  hi == Mul(SatRadius[s], Dec(103, 2))
                          IN Ge(r2, Mul(lo, lo)) /\ Le(r2, Mul(hi, hi)))
     \* one minute later no satellite has moved by more than 0.02 Jupiter radius (Io: 17.3 km/s = 0.0145 Rj per minute)
\cup Viol("SATELLITE_CONTINUITY",
          \A s \in 1..4 : LET d == <<Sub(Ev.Q[s][1], Ev.P[s][1]), Sub(Ev.Q[s][2], Ev.P[s][2]), Sub(Ev.Q[s][3], Ev.P[s][3])>>
                          IN Le(Norm2(<<MulInt(d[1], 100), MulInt(d[2], 100), MulInt(d[3], 100)>>), FromInt(4)))

\* Galilean satellite phenomena.  M = check_phenomena(e): per satellite the perspective distance from Jupiter's centre seen
\* from the Earth (occultation column) and from the Sun (eclipse column), positive when the satellite is BEHIND the planet;
\* occ / ecl = the single-satellite calls; one = check_phenomena(e, False, s); isp = is_phenomena(e);
\* CE CS = rectangular coordinates seen from the Earth / the Sun (Jupiter radii; Y is stretched by the flattening 1.071374)
Flat == Add(One, Dec(71374, 6))
PerspOK(d, c) ==
  LET y == Mul(c[2], Flat)
      r2 == Add(Mul(c[1], c[1]), Mul(y, y))
  IN /\ Le(Abs(Sub(Mul(d, d), r2)), Add(Mul(Dec(1, 9), r2), Dec(1, 12)))
     /\ (Sgn(c[3]) = 1 => Sgn(d) >= 0) /\ (Sgn(c[3]) = -1 => Sgn(d) <= 0)
Hidden(d) == Ge(d, Zero) /\ Le(d, One)          \* behind the planet and inside its (stretched) disk
VerdictJphen ==
  IF Ev.oc # "ok" THEN {"JPHEN_TOTAL"} ELSE
     Viol("JPHEN_MATRIX_IS_ITS_PIECES", \A s \in 1..4 : Ev.M[s][1] = Ev.occ[s] /\ Ev.M[s][2] = Ev.ecl[s] /\ IsZero(Ev.M[s][3]))
\cup Viol("JPHEN_SINGLE_SATELLITE_IS_ITS_ROW", \A s \in 1..4 : Ev.one[s][1] = Ev.M[s][1] /\ Ev.one[s][2] = Ev.M[s][2])
\cup Viol("JPHEN_PERSPECTIVE_DISTANCE", \A s \in 1..4 : PerspOK(Ev.M[s][1], Ev.CE[s]) /\ PerspOK(Ev.M[s][2], Ev.CS[s]))
\cup Viol("JPHEN_YES_NO_MATRIX", \A s \in 1..4 : /\ ((Ev.isp[s][1] = 1) <=> Hidden(Ev.M[s][1]))
                                                   /\ ((Ev.isp[s][2] = 1) <=> Hidden(Ev.M[s][2]))
                                                   /\ Ev.isp[s][3] = 0)
     \* check_coordinates(X, Y) is the unsigned perspective distance of the same coordinates
\cup Viol("JPHEN_CHECK_COORDINATES", \A s \in 1..4 : Ge(Ev.cc[s], Zero) /\ Within(Ev.cc[s], Abs(Ev.M[s][1]), Dec(1, 9)))

\* jupiter_system_angles(e) = (psi, node): psi, the node of Jupiter's equator on the ecliptic of date, moves with the general
\* precession less its own 0.076 deg/century regression (1.32 deg per Julian century); node is the ascending node of the
\* orbit of Jupiter and must be the one Jupiter.orbital_elements_mean_equinox gives (light time moves it by 1e-6 deg only)
VerdictJsys ==
  IF Ev.oc # "ok" THEN {"JSYS_TOTAL"} ELSE
     Viol("JSYS_NODE_IS_THE_ORBIT_NODE", Within(Ev.node, Ev.onode, Dec(1, 5)))
\cup Viol("JSYS_PSI_PRECESSES", Ge(Sub(Ev.psi2, Ev.psi), Dec(131, 2)) /\ Le(Sub(Ev.psi2, Ev.psi), Dec(133, 2)))
\cup Viol("JSYS_NODE_RATE", Ge(Sub(Ev.node2, Ev.node), Dec(101, 2)) /\ Le(Sub(Ev.node2, Ev.node), Dec(104, 2)))
\cup Viol("JSYS_RANGES", Ge(Ev.psi, FromInt(314)) /\ Le(Ev.psi, FromInt(320)) /\ Ge(Ev.node, FromInt(99)) /\ Le(Ev.node, FromInt(102)))

\* ---- helpers no other driver reaches -------------------------------------------------------------------------
PiG == Add(FromInt(3), Add(Dec(1415926535, 10), Add(Dec(8979, 14), Dec(32, 16))))
\* machine_accuracy(): x = 2^(j+1) is the first power of two with x + 1 = x, i.e. 2^53 for IEEE doubles: 52 stored mantissa
\* bits, and the 15 decimal digits they carry
VerdictMacc == Viol("MACHINE_ACCURACY", Ev.jint = 1 /\ Ev.j = 52 /\ Ev.dec = 15)
\* reduce_dms(D, M, S): the same angle (sign: negative if any field is), fields in range, integral degrees and minutes
VerdictRdms ==
  IF Ev.oc # "ok" THEN {"REDUCE_DMS_TOTAL"} ELSE
  LET inp == Add(Ev.D, Add(DivInt(Ev.M, 60), DivInt(Ev.S, 3600)))
      out == Add(Ev.d, Add(DivInt(Ev.m, 60), DivInt(Ev.s, 3600)))
  IN Viol("REDUCE_DMS_FIELDS", /\ Ge(Ev.d, Zero) /\ Lt(Ev.d, FromInt(360)) /\ ~HasFrac(Ev.d)
                               /\ Ge(Ev.m, Zero) /\ Lt(Ev.m, FromInt(60)) /\ ~HasFrac(Ev.m)
                               /\ Ge(Ev.s, Zero) /\ Lt(Ev.s, FromInt(60)))
  \cup Viol("REDUCE_DMS_SAME_ANGLE", WithinMod(out, inp, 360, Dec(1, 9)))
  \cup Viol("REDUCE_DMS_SIGN", Ev.sg = (IF Ev.neg = 1 THEN -1 ELSE 1))
\* set_radians(r): r * 180 / pi reduced; set_ra(h): 15 h reduced; both on an object that held something else before
VerdictSetAng ==
     \* rd = r in degrees is a witness: rd * pi = 180 r is verified here
     Viol("SET_RADIANS", /\ Le(Abs(Sub(Mul(Ev.rd, PiG), MulInt(Ev.r, 180))), Dec(1, 9))
                         /\ WithinMod(Ev.v1, Ev.rd, 360, Dec(1, 9)) /\ Lt(Abs(Ev.v1), FromInt(360)))
\cup Viol("SET_RA", WithinMod(Ev.v2, MulInt(Ev.h, 15), 360, Dec(1, 9)) /\ Lt(Abs(Ev.v2), FromInt(360)))
\* ecliptic_equator at latitude 0: q = 180 - atan(cos(lon) tan(eps)), hence within eps of 180 and on the side given by cos(lon)
VerdictEclEq ==
  IF Ev.oc # "ok" THEN {"ECLIPTIC_EQUATOR_TOTAL"} ELSE
  LET dq == Sub(Mod(Ev.q, 360), FromInt(180))
  IN Viol("ECLIPTIC_EQUATOR_WITHIN_OBLIQUITY", Le(Abs(dq), Add(Ev.eps, Dec(1, 9))))
  \cup Viol("ECLIPTIC_EQUATOR_SIDE", Lt(Abs(Ev.cl), Dec(1, 6)) \/ Sgn(dq) = 0 - Sgn(Ev.cl))
\* straight_line: six orders of the same three bodies (the function sorts them itself); bodies ON one great circle
\* (bend = 0) deviate by nothing; a body lifted by `bend` degrees off the great circle of the other two is that far from
\* their line, provided it is the one the function takes as central (the middle one in right ascension: mid = 1)
VerdictSline ==
     Viol("STRAIGHT_LINE_TOTAL", \A p \in 1..6 : Ev.oc[p] = "ok")
\cup (IF \E p \in 1..6 : Ev.oc[p] # "ok" THEN {} ELSE
      Viol("STRAIGHT_LINE_ORDER_FREE", \A p \in 2..6 : Ev.psi[p] = Ev.psi[1] /\ Ev.om[p] = Ev.om[1])
 \cup Viol("STRAIGHT_LINE_ON_GREAT_CIRCLE", ~IsZero(Ev.bend) \/ Le(Abs(Ev.om[1]), Dec(1, 5)))
 \cup Viol("STRAIGHT_LINE_DISTANCE", IsZero(Ev.bend) \/ Ev.mid = 0 \/ Le(Abs(Sub(Abs(Ev.om[1]), Ev.bend)), Dec(1, 5))))
\* position angle of the Moon's axis: within 25 deg of north, changing by less than 7.5 deg per day (24.6 deg amplitude over
\* a 27.3-day period gives 5.7; the observed maximum is 6.8)
VerdictMpaa ==
     Viol("MOON_AXIS_RANGE", Le(DistMod(Ev.p0, 360), FromInt(25)))
\cup Viol("MOON_AXIS_CONTINUOUS", Le(DistMod(Sub(Ev.p1, Ev.p0), 360), Dec(75, 1)))
\* Earth-Jupiter distance (AU) and its light time (days)
VerdictJdelta ==
     Viol("JUPITER_DISTANCE_RANGE", Ge(Ev.delta, Dec(39, 1)) /\ Le(Ev.delta, Dec(65, 1)))
\cup Viol("JUPITER_LIGHT_TIME", Le(Abs(Sub(Ev.tau, Mul(Dec(57755183, 10), Ev.delta))), Dec(1, 8)))
\* apparent_rectangular_coordinates is a chain of six rotations: the length of the vector is unchanged
VerdictJrot ==
  IF Ev.oc # "ok" THEN {"JSAT_APPARENT_TOTAL"} ELSE
  Viol("JSAT_APPARENT_IS_ROTATION", Le(Abs(Sub(Norm2(Ev.q), Norm2(Ev.p))), Mul(Dec(1, 9), Add(One, Norm2(Ev.p)))))
\* correct_rectangular_positions: Z is kept; a satellite on the far side (Z > 0) is drawn towards the planet's centre by the
\* perspective factor delta / (delta + Z / 2095), one on the near side away from it (checked on Y, which gets no other term);
\* the differential light-time term moves X by at most |Z| / 17295; tuple, list and separate arguments agree
VerdictJcorr ==
  IF Ev.oc # "ok" THEN {"JSAT_CORRECTION_TOTAL"} ELSE
     Viol("JSAT_CORRECTION_ARGUMENT_FORMS", Ev.c1 = Ev.c2 /\ Ev.c1 = Ev.c3)
\cup Viol("JSAT_CORRECTION_KEEPS_Z", Ev.c1[3] = Ev.p[3])
\cup Viol("JSAT_PERSPECTIVE", LET w == Add(Ev.delta, DivInt(Ev.p[3], 2095))
                              IN Le(Abs(Sub(Mul(Ev.c1[2], w), Mul(Ev.p[2], Ev.delta))), Dec(1, 10)))
\cup Viol("JSAT_LIGHT_TIME_TERM", LET w == Add(Ev.delta, DivInt(Ev.p[3], 2095))
                                      dx == Sub(Mul(Ev.c1[1], w), Mul(Ev.p[1], Ev.delta))     \* = delta * light-time shift
                                  IN Ge(dx, Neg(Dec(1, 10))) /\ Le(dx, Add(Mul(Ev.delta, DivInt(Abs(Ev.p[3]), 17295)), Dec(1, 10))))

\* eval(repr(x)) rebuilds an equal object (Angle, Epoch, Interpolation, CurveFitting)
VerdictReprs == Viol("REPR_ROUND_TRIP_ANGLE", Ev.a = 1) \cup Viol("REPR_ROUND_TRIP_EPOCH", Ev.e = 1)
           \cup Viol("REPR_ROUND_TRIP_INTERPOLATION", Ev.i = 1) \cup Viol("REPR_ROUND_TRIP_CURVEFITTING", Ev.c = 1)

\* Sun's disk: P position angle of the axis, B0 L0 heliographic latitude / longitude of the centre; the same one day later;
\* lc = L0 at the beginning of a Carrington rotation (which is DEFINED by L0 = 0)
VerdictSunPhys ==
     Viol("SUN_AXIS_RANGES", Le(Abs(Ev.P), Dec(266, 1)) /\ Le(Abs(Ev.B0), Dec(726, 2)) /\ Ge(Ev.L0, Zero) /\ Lt(Ev.L0, FromInt(360)))
\cup Viol("SUN_L0_DAILY_ROTATION", LET d == Mod(Sub(Ev.L0, Ev.L1), 360) IN Ge(d, Dec(131, 1)) /\ Le(d, Dec(133, 1)))
\cup Viol("CARRINGTON_L0_ZERO", Le(DistMod(Ev.lc, 360), Dec(8, 2)))

\* Saturn's ring: B B' saturnicentric latitudes of Earth and Sun, dU, a b axes of the outer edge (arcsec), sB = sin B witness
VerdictRing ==
     Viol("WITNESS", Le(Abs(Ev.sB), One))
\cup Viol("RING_MINOR_AXIS", Near(Ev.b, Mul(Ev.a, Abs(Ev.sB)), Mul(Dec(1, 6), Ev.a)))
\cup Viol("RING_RANGES", /\ Le(Abs(Ev.B), Dec(275, 1)) /\ Le(Abs(Ev.Bp), Dec(275, 1)) /\ Le(DistMod(Ev.dU, 360), FromInt(10))
                          /\ Ge(Ev.a, Dec(335, 1)) /\ Le(Ev.a, Dec(472, 1)) /\ Le(Abs(Sub(Ev.B, Ev.Bp)), FromInt(7)))

\* librations of the Moon: total = optical + physical; the physical part never exceeds 0.04 degree
VerdictLibr ==
     Viol("LIBRATION_TOTAL_IS_SUM", WithinMod(Ev.lt, Add(Ev.lo, Ev.lp), 360, Dec(1, 9)) /\ Near(Ev.bt, Add(Ev.bo, Ev.bp), Dec(1, 9)))
\* (Meeus: "never larger than 0.04 degree"; his own series reach 0.061 in latitude - bound 0.1.  Longitudes are
\* compared modulo 360: the library returns some of them in [0, 360) and some signed)
\cup Viol("LIBRATION_PHYSICAL_SMALL", Le(DistMod(Ev.lp, 360), Dec(1, 1)) /\ Le(Abs(Ev.bp), Dec(1, 1)))
\cup Viol("LIBRATION_OPTICAL_RANGE", Le(DistMod(Ev.lo, 360), Dec(82, 1)) /\ Le(Abs(Ev.bo), Dec(70, 1)))

\* ---- static helpers ------------------------------------------------------------------
Sixty == FromInt(60)
Recomb(d, m, sec) == Add(FromInt(d), Add(DivInt(FromInt(m), 60), DivInt(sec, 3600)))
VerdictStat ==
     \* deg2dms: integral degrees and minutes, seconds in [0, 60), sign +-1, the pieces recombine to the value (mod 360)
     Viol("DEG2DMS_FIELDS", Ev.d >= 0 /\ Ev.m \in 0..59 /\ Ge(Ev.s, Zero) /\ Lt(Ev.s, Sixty) /\ Ev.sg \in {1, -1})
\cup Viol("DEG2DMS_RECOMBINES",
          Ev.d >= 0 /\ Ev.m >= 0 =>
            LET mag == Recomb(Ev.d, Ev.m, Ev.s) IN
            WithinMod(IF Ev.sg = 1 THEN mag ELSE Neg(mag), Ev.x, 360, Add(Dec(1, 9), Mul(Dec(1, 15), Abs(Ev.x)))))
\cup Viol("REDUCE_DEG", /\ Lt(Abs(Ev.rd), FromInt(360)) /\ WithinMod(Ev.rd, Ev.x, 360, Add(Dec(1, 10), Mul(Dec(1, 15), Abs(Ev.x))))
                        /\ (IsZero(Ev.rd) \/ Ev.rd.s = Ev.x.s))
\cup Viol("DMS2DEG_INVERTS_DEG2DMS", WithinMod(Ev.back, Ev.x, 360, Add(Dec(1, 9), Mul(Dec(1, 15), Abs(Ev.x)))))

VerdictCal ==
     Viol("IS_LEAP", (Ev.leap = 1) <=> Leap(Ev.y))
     \* a date belongs to the Julian calendar iff it precedes 1582-10-05
\cup Viol("IS_JULIAN", (Ev.jul = 1) <=> (Ev.y < 1582 \/ (Ev.y = 1582 /\ (Ev.m < 10 \/ (Ev.m = 10 /\ Ev.d < 5)))))
     \* an instant belongs to the Julian calendar iff it precedes 1582-10-15 0h (JDE 2299160.5)
\cup Viol("EPOCH_JULIAN", (Ev.ejul = 1) <=> Lt(Ev.jd, Add(FromInt(2299160), Dec(5, 1))))

OrdSuffix(n) == IF (n % 100) \in 11..13 THEN "th"
                ELSE IF n % 10 = 1 THEN "st" ELSE IF n % 10 = 2 THEN "nd" ELSE IF n % 10 = 3 THEN "rd" ELSE "th"
VerdictOrd == Viol("ORDINAL_SUFFIX", Ev.suf = OrdSuffix(Ev.n))
VerdictIint == Viol("IINT_IS_FLOOR", Ev.i = FloorInt(Ev.v))

\* ---- orbital elements in the two frames: <<L, a, e, i, Omega, w>> (w = argument of perihelion) -----------------
\* the frame changes i, Omega and the origin of L, not the shape (a, e), not the mean anomaly L - (Omega + w), and the
\* mean longitudes differ by the general precession (1.3969713 deg per century +- 0.0005 T)
VerdictElem ==
     Viol("ELEMENTS_SHAPE_FRAME_INDEPENDENT", Ev.J[2] = Ev.M[2] /\ Ev.J[3] = Ev.M[3])
\cup Viol("ELEMENTS_MEAN_ANOMALY_FRAME_INDEPENDENT",
          WithinMod(Sub(Ev.J[1], Add(Ev.J[5], Ev.J[6])), Sub(Ev.M[1], Add(Ev.M[5], Ev.M[6])), 360, Add(Dec(2, 3), Mul(Dec(2, 3), Abs(Ev.T)))))
\cup Viol("ELEMENTS_PRECESSION_OF_LONGITUDE",
          WithinMod(Sub(Ev.M[1], Ev.J[1]), Mul(Dec(13969713, 7), Ev.T), 360, Add(Dec(1, 3), Mul(Dec(2, 3), Mul(Ev.T, Ev.T)))))
VerdictMnode == Viol("TRUE_NODE_NEAR_MEAN_NODE", Le(DistMod(Sub(Ev.tn, Ev.mn), 360), FromInt(2)))
VerdictRingEl ==
     Viol("RING_INCLINATION_RANGE", Ge(Ev.inc, FromInt(27)) /\ Le(Ev.inc, FromInt(29)))
\cup Viol("RING_NODE_PRECESSES", LET d == Mod(Sub(Ev.n1, Ev.n0), 360) IN Ge(d, Dec(12, 1)) /\ Le(d, Dec(16, 1)))

\* ---- spherical geometry helpers ----------------------------------------------------------
Chord2(u, v) == Norm2(<<Sub(u[1], v[1]), Sub(u[2], v[2]), Sub(u[3], v[3])>>)
VerdictParal == Viol("PARALLACTIC_ANTISYMMETRIC", WithinMod(Ev.q2, Neg(Ev.q1), 360, Dec(1, 9)))
VerdictEclHor ==
     Viol("ECLIPTIC_HORIZON_OPPOSITE_POINTS", WithinMod(Sub(Ev.l2, Ev.l1), FromInt(180), 360, Dec(1, 9)))
\cup Viol("ECLIPTIC_HORIZON_ANGLE_RANGE", Ge(Ev.inc, Zero) /\ Le(Ev.inc, FromInt(180)))
     \* the ecliptic point of that longitude is on the horizon (through the library's own, C05-checked, conversions)
\cup Viol("ECLIPTIC_HORIZON_POINT_ON_HORIZON", Le(Abs(Ev.el), Dec(1, 6)))
VerdictDph ==
     \* (the library measures J from the same side in both hemispheres: 90 - phi at the celestial equator, obtuse in the south)
     Viol("DIURNAL_PATH_RANGE", Ge(Ev.j, Zero) /\ Le(Ev.j, FromInt(180)))
\cup Viol("DIURNAL_PATH_SYMMETRIC", Near(Ev.j, Ev.jm, Dec(1, 9)))
\cup Viol("DIURNAL_PATH_EQUATOR", Near(Ev.j0, Sub(FromInt(90), Ev.phi), Dec(1, 9)))
VerdictMinSep ==
  IF Ev.oc # "ok" THEN {"MINSEP_TOTAL"} ELSE
     Viol("MINSEP_NOT_ABOVE_TABULATED", \A i \in 1..3 : Le(Ev.dmin, Add(Ev.seps[i], Dec(1, 5))))      \* the helper works on rectangular differences in arcseconds: good to ~1e-6 degree
\cup Viol("MINSEP_NON_NEGATIVE", Ge(Ev.dmin, Zero))
VerdictParab ==
     \* at the nodes the true anomaly is -w (ascending) and 180 - w (descending): r (1 + cos v) = 2 q
     Viol("PARABOLIC_NODE_RADIUS", /\ Near(Mul(Ev.ra, Add(One, Ev.cw)), MulInt(Ev.q, 2), Mul(Dec(1, 9), Add(Ev.ra, One)))
                                   /\ Near(Mul(Ev.rd, Sub(One, Ev.cw)), MulInt(Ev.q, 2), Mul(Dec(1, 9), Add(Ev.rd, One))))
VerdictRho == Viol("RHO_IS_NORM_OF_COMPONENTS",
                   Near(Mul(Ev.rho, Ev.rho), Add(Mul(Ev.rs, Ev.rs), Mul(Ev.rc, Ev.rc)), Dec(4, 5)))
\* total proper motion is the same in both frames (the function takes Angles in degrees and returns plain floats in
\* radians, although its docstring promises Angles; everything in micro-radians here)
VerdictPm ==
  LET eq == Add(Mul(Mul(Ev.pma, Ev.cd), Mul(Ev.pma, Ev.cd)), Mul(Ev.pmd, Ev.pmd))
      ec == Add(Mul(Mul(Ev.pml, Ev.cb), Mul(Ev.pml, Ev.cb)), Mul(Ev.pmb, Ev.pmb))
  IN Viol("PROPER_MOTION_MAGNITUDE_INVARIANT", Near(eq, ec, Add(Mul(Dec(1, 6), eq), Dec(1, 12))))
VerdictMis ==
     Viol("MOTION_IN_SPACE_NO_MOTION", Le(Chord2(Ev.u1, Ev.u0), Dec(1, 16)))
\cup Viol("MOTION_IN_SPACE_NO_TIME", Le(Chord2(Ev.u2, Ev.u0), Dec(1, 16)))
\* aberration (20.5 arcsec) plus nutation (17.2 arcsec / 9.2 arcsec): the apparent place is within 45 arcsec of the mean one
VerdictApp == Viol("APPARENT_PLACE_DISPLACEMENT", Le(Chord2(Ev.u1, Ev.u0), Dec(5, 8)))
\* heliocentric direction of a minor body = direction of the verified two-body position (1e-4 degree)
VerdictMhel ==
  IF Ev.oc # "ok" THEN (IF Ge(Ev.u[1], Zero) /\ FALSE THEN {} ELSE {"MINOR_HELIOCENTRIC_TOTAL"}) ELSE
     Viol("MINOR_HELIOCENTRIC_DIRECTION", Le(Chord2(Ev.u, Ev.h), Dec(4, 12)))

Verdict == CASE Ev.k = "stat" -> VerdictStat [] Ev.k = "cal" -> VerdictCal [] Ev.k = "ord" -> VerdictOrd [] Ev.k = "iint" -> VerdictIint
             [] Ev.k = "elem" -> VerdictElem [] Ev.k = "mnode" -> VerdictMnode [] Ev.k = "ringel" -> VerdictRingEl
             [] Ev.k = "paral" -> VerdictParal [] Ev.k = "eclhor" -> VerdictEclHor [] Ev.k = "dph" -> VerdictDph
             [] Ev.k = "minsep" -> VerdictMinSep [] Ev.k = "parab" -> VerdictParab [] Ev.k = "rho" -> VerdictRho
             [] Ev.k = "pm" -> VerdictPm [] Ev.k = "mis" -> VerdictMis [] Ev.k = "app" -> VerdictApp [] Ev.k = "mhel" -> VerdictMhel
             [] Ev.k = "sunphys" -> VerdictSunPhys [] Ev.k = "ring" -> VerdictRing [] Ev.k = "libr" -> VerdictLibr
             [] Ev.k = "refr" -> VerdictRefr [] Ev.k = "carr" -> VerdictCarr [] Ev.k = "epk" -> VerdictEpk
             [] Ev.k = "angv" -> VerdictAngv [] Ev.k = "mag" -> VerdictMag [] Ev.k = "moonk" -> VerdictMoonk
             [] Ev.k = "jsat" -> VerdictJsat [] Ev.k = "jphen" -> VerdictJphen [] Ev.k = "jsys" -> VerdictJsys
             [] Ev.k = "macc" -> VerdictMacc [] Ev.k = "rdms" -> VerdictRdms [] Ev.k = "setang" -> VerdictSetAng
             [] Ev.k = "ecleq" -> VerdictEclEq [] Ev.k = "sline" -> VerdictSline [] Ev.k = "mpaa" -> VerdictMpaa
             [] Ev.k = "jdelta" -> VerdictJdelta [] Ev.k = "reprs" -> VerdictReprs
             [] Ev.k = "jrot" -> VerdictJrot [] Ev.k = "jcorr" -> VerdictJcorr [] OTHER -> {"UNKNOWN_KIND"}
Init == TraceInit(0)
Next == StepWith(Verdict, 0)
Spec == Init /\ [][Next]_<<l, st>>
=============================================================================
