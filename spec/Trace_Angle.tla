----------------------------- MODULE Trace_Angle -----------------------------
(***************************************************************************)
(* C03 conformance, single-call judgments.  All numbers are Fix.          *)
(*  "new":  form, xin = exact real input in degrees (for "dms": pieces    *)
(*          d m s, and sg4 the optional fourth sign argument), ins = sign *)
(*          of the input, v / vs = stored value and its sign, oc outcome  *)
(*  "op":   op, x y = left / right real operands in mathematical order,   *)
(*          r rs = result value and sign, oc = outcome class, same = 1 if *)
(*          both operand objects are bit-identical after the call,        *)
(*          rty = 1 if the result is a new Angle, q = quotient witness    *)
(*          (div: x/y, mod: floor(|x|/y)), n = integer exponent           *)
(*  "pos":  x before, r after to_positive()                               *)
(*  "view": v, rad, ra                                                     *)
(***************************************************************************)
EXTENDS TraceKit, AngleADT

Stored(ev, exact, mag) ==
     Viol("RANGE", InOpenRange(ev.v))
\cup Viol("CONGRUENT", Congruent(ev.v, exact, mag))
\cup Viol("SIGN", SignOK(ev.vs, ev.ins))

VerdictNew(ev) ==
  IF ev.oc # "ok" THEN {"TOTAL"}
  ELSE IF ev.form = "dms"
       THEN LET e0 == DmsExact(ev.d, ev.m, ev.s)
                e  == IF ev.sg4 = -1 /\ e0.s = 1 THEN Neg(e0) ELSE e0
            IN Stored(ev, e, e)
       ELSE Stored(ev, ev.xin, ev.xin)

Exact(ev) ==     \* <<defined, exact value, magnitude for the tolerance>>
  CASE ev.op = "neg" -> <<TRUE, Neg(ev.x), ev.x>>
    [] ev.op = "abs" -> <<TRUE, Abs(ev.x), ev.x>>
    [] ev.op \in {"add", "iadd", "radd"} -> <<TRUE, Add(ev.x, ev.y), Add(Abs(ev.x), Abs(ev.y))>>
    [] ev.op \in {"sub", "isub", "rsub"} -> <<TRUE, Sub(ev.x, ev.y), Add(Abs(ev.x), Abs(ev.y))>>
    [] ev.op \in {"mul", "imul", "rmul"} -> <<TRUE, Mul(ev.x, ev.y), Mul(ev.x, ev.y)>>
    [] ev.op \in {"div", "idiv", "rdiv"} -> <<IsQuotient(ev.q, ev.x, ev.y), ev.q, ev.q>>
    [] ev.op \in {"mod", "imod", "rmod"} -> <<IsFloorQuot(ev.q, ev.x, ev.y), ModExact(ev.q, ev.x, ev.y), ev.x>>
    [] ev.op \in {"pow", "ipow", "rpow"} -> <<ev.n \in 0..6, PowNat(ev.x, ev.n), PowNat(ev.x, ev.n)>>
    [] OTHER -> <<FALSE, Zero, Zero>>

IsDivLike(ev) == ev.op \in {"div", "idiv", "rdiv", "mod", "imod", "rmod"}

VerdictOp(ev) ==
  LET e == Exact(ev) IN
     Viol("OPERANDS_UNCHANGED", ev.same = 1)
\cup (IF IsDivLike(ev) /\ IsZero(ev.y) /\ ev.yz = 1
      THEN Viol("ZERO_DIVISION", ev.oc = "ZeroDivisionError")
      ELSE IF ev.oc # "ok"
           THEN (IF IsDivLike(ev) /\ Lt(Abs(ev.y), Dec(1, 9)) THEN {} ELSE {"TOTAL"})
           ELSE Viol("WITNESS", e[1])             \* machinery: the harness witness must verify
           \cup Viol("RESULT_TYPE", ev.rty = 1)
           \cup Viol("RANGE", InOpenRange(ev.r))
           \cup (IF e[1] THEN Viol("CONGRUENT", Congruent(ev.r, e[2], e[3])) ELSE {}))

VerdictPos(ev) ==
     Viol("POSITIVE_RANGE", Ge(ev.r, Zero) /\ Lt(ev.r, F360) /\ ev.rs >= 0)
\cup Viol("POSITIVE_CONGRUENT", Congruent(ev.r, ev.x, ev.x))
\cup Viol("POSITIVE_SELF", ev.self = 1)

VerdictView(ev) ==
     Viol("VIEW_RAD", Within(MulInt(ev.rad, 180), Mul(ev.v, PiFix), Dec(1, 11)))
\cup Viol("VIEW_RA", Within(MulInt(ev.ra, 15), ev.v, Dec(1, 11)))

Verdict ==
  CASE Ev.k = "new" -> VerdictNew(Ev)
    [] Ev.k = "op" -> VerdictOp(Ev)
    \* Angle / tiny non-zero plain number: "ZeroDivisionError ... only for division by zero"
    [] Ev.k = "tinydiv" -> Viol("TINY_DIVISOR_IS_NOT_ZERO", Ev.oc = "ok" /\ Ev.rty = 1)
                       \cup Viol("OPERANDS_UNCHANGED", Ev.same = 1)
                       \cup (IF Ev.oc = "ok" THEN Viol("RANGE", InOpenRange(Ev.r)) ELSE {})
    [] Ev.k = "pos" -> VerdictPos(Ev)
    [] Ev.k = "view" -> VerdictView(Ev)
    [] OTHER -> {"UNKNOWN_KIND"}

Init == TraceInit(0)
Next == StepWith(Verdict, 0)
Spec == Init /\ [][Next]_<<l, st>>
=============================================================================
