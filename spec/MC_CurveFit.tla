------------------------------ MODULE MC_CurveFit ------------------------------
(* Design-level check of the least-squares formulas on every data set of   *)
(* NP points with x, y in -CF_LO..CF_HI, in plain integers: the determinant is     *)
(* zero exactly on degenerate data, the Cramer solution satisfies the      *)
(* normal equations (residuals orthogonal to 1, x and, for the parabola,   *)
(* x^2), Cauchy-Schwarz (|r| <= 1) with equality exactly on collinear      *)
(* data.  On a slice of the domain the Fix-arithmetic operators of         *)
(* CurveFit.tla (the ones the trace specification uses) are checked to     *)
(* compute the same numbers.                                               *)
EXTENDS CurveFit, TLC, IOUtils, FiniteSets
VARIABLES xs, ys
NP == atoi(IOEnv.CF_NP)
V == (-atoi(IOEnv.CF_LO))..atoi(IOEnv.CF_HI)
Init == xs \in [1..NP -> V] /\ ys \in [1..NP -> V]
Next == UNCHANGED <<xs, ys>>
Spec == Init /\ [][Next]_<<xs, ys>>

RECURSIVE ISum(_, _)
ISum(f, i) == IF i > NP THEN 0 ELSE f[i] + ISum(f, i + 1)
S(f) == ISum(f, 1)
X2 == [i \in 1..NP |-> xs[i] * xs[i]]
n == NP
p == S(xs)   q == S(X2)   r == S([i \in 1..NP |-> X2[i] * xs[i]])   s == S([i \in 1..NP |-> X2[i] * X2[i]])
t == S(ys)   u == S([i \in 1..NP |-> xs[i] * ys[i]])   v == S([i \in 1..NP |-> X2[i] * ys[i]])
w == S([i \in 1..NP |-> ys[i] * ys[i]])
Distinct == Cardinality({xs[i] : i \in 1..NP})

LinD == n * q - p * p
LinA == n * u - p * t
LinB == t * q - p * u
QuadD == n * q * s + 2 * p * q * r - q * q * q - p * p * s - n * r * r
QuadA == v * (q * n - p * p) + u * (q * p - r * n) + t * (r * p - q * q)
QuadB == v * (p * q - r * n) + u * (s * n - q * q) + t * (r * q - s * p)
QuadC == v * (r * p - q * q) + u * (q * r - s * p) + t * (s * q - r * r)

LinDetZeroIffDegenerate == (LinD = 0) <=> (Distinct = 1)
QuadDetZeroIffDegenerate == (QuadD = 0) <=> (Distinct <= 2)
LinNormalEquations ==
  LET res == [i \in 1..NP |-> LinD * ys[i] - LinA * xs[i] - LinB] IN
  S(res) = 0 /\ S([i \in 1..NP |-> res[i] * xs[i]]) = 0
QuadNormalEquations ==
  LET res == [i \in 1..NP |-> QuadD * ys[i] - QuadA * X2[i] - QuadB * xs[i] - QuadC] IN
  S(res) = 0 /\ S([i \in 1..NP |-> res[i] * xs[i]]) = 0 /\ S([i \in 1..NP |-> res[i] * X2[i]]) = 0
Collinear == \A i, j, k \in 1..NP :
               (xs[j] - xs[i]) * (ys[k] - ys[i]) = (xs[k] - xs[i]) * (ys[j] - ys[i])
CauchySchwarz ==
  LET dx == n * q - p * p   dy == n * w - t * t   nxy == n * u - p * t IN
  /\ nxy * nxy <= dx * dy /\ dx >= 0 /\ dy >= 0
  /\ ((dx > 0 /\ dy > 0) => ((nxy * nxy = dx * dy) <=> Collinear))
\* the Fix operators used by Trace_CurveFit compute the same numbers (slice of the domain)
FX == [i \in 1..NP |-> FromInt(xs[i])]
FY == [i \in 1..NP |-> FromInt(ys[i])]
FixAgrees == (xs[1] = -2 /\ xs[2] = 1 /\ ys[1] = 2) =>
  LET L == LinParts(FX, FY)  Q == QuadParts(FX, FY)  C == CorrParts(FX, FY) IN
  /\ L.d = FromInt(LinD) /\ L.na = FromInt(LinA) /\ L.nb = FromInt(LinB)
  /\ Q.d = FromInt(QuadD) /\ Q.na = FromInt(QuadA) /\ Q.nb = FromInt(QuadB) /\ Q.nc = FromInt(QuadC)
  /\ C.dx = FromInt(n * q - p * p) /\ C.dy = FromInt(n * w - t * t) /\ C.nxy = FromInt(n * u - p * t)
=============================================================================
