SPECIFICATION Spec
CONSTANT Kind = "fit"
POSTCONDITION Consumed
CHECK_DEADLOCK FALSE
