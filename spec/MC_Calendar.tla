---------------------------- MODULE MC_Calendar ----------------------------
(* Exhaustive walk of the civil calendar: every day Y0-01-01 .. Y1-12-31. *)
(* The chain is a single behaviour; sharding by year range gives the      *)
(* parallelism (each shard starts at the closed form Jan1(Y0), which the  *)
(* preceding shard's InvJan1 proves equal to the chain).                   *)
EXTENDS Calendar, TLC, IOUtils
VARIABLE c
Y0 == atoi(IOEnv.CAL_Y0)
Y1 == atoi(IOEnv.CAL_Y1)
Init == c = (IF Y0 = YMinDef THEN Start ELSE Jan1(Y0))
Next == /\ ~(c.y = Y1 /\ c.m = 12 /\ c.d = 31)
        /\ c' = NextDay(c)
Spec == Init /\ [][Next]_c
Fwd == InvFwd(c)
Bwd == InvBwd(c)
Civil == InvCivil(c)
Jan1Closed == InvJan1(c)
Dow == InvDow(c)
GregorianDow == InvGregDow(c)
YearEnd == InvYearEnd(c)
Doy == InvDoy(c)
DoyMeeus == InvDoyFormula(c)
LeapRule == InvLeapCode(c)
Anchors == InvAnchors(c)
\* the day past every month end and day 0 are not civil dates
MonthEdges == ~IsCivil(c.y, c.m, MLen(c.y, c.m) + 1) /\ ~IsCivil(c.y, c.m, 0)
\* action property: consecutive civil days are one day number apart
StepOne == [][c'.jdn = c.jdn + 1 /\ c'.dow = (c.dow + 1) % 7]_c
=============================================================================
