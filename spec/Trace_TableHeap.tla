---------------------------- MODULE Trace_TableHeap ----------------------------
(***************************************************************************)
(* Replay of TLC-generated table-heap behaviours on real Interpolation /   *)
(* CurveFitting objects (spec -> code), validated step by step.            *)
(*  "reset": three distinct empty objects                                  *)
(*  "step":  o = the operation TLC chose; tab / tol = which data set and   *)
(*           tolerance every name is OBSERVED to hold afterwards (the      *)
(*           harness recognises a data set by the object's length and its  *)
(*           answers to fixed queries), sh = names sharing one object,     *)
(*           pure = 1 if a query left every observation unchanged          *)
(***************************************************************************)
EXTENDS TraceKit, TableHeap

Expected == IF Ev.k = "reset" THEN EmptyHeap ELSE Apply(st, Ev.o)
ObsPairs(ev) == {ev.sh[i] : i \in 1..Len(ev.sh)}
ObsVal(ev, n) == [tab |-> ev.tab[n], tol |-> ev.tol[n]]
Observed(ev) ==
  [name |-> [n \in Names |-> CASE n = "a" -> 1
                                [] n = "b" -> IF "ab" \in ObsPairs(ev) THEN 1 ELSE 2
                                [] OTHER   -> IF "ac" \in ObsPairs(ev) THEN 1
                                              ELSE IF "bc" \in ObsPairs(ev) THEN 2 ELSE 3],
   obj |-> <<ObsVal(ev, "a"),
             IF "ab" \in ObsPairs(ev) THEN ObsVal(ev, "a") ELSE ObsVal(ev, "b"),
             IF "ac" \in ObsPairs(ev) THEN ObsVal(ev, "a") ELSE IF "bc" \in ObsPairs(ev) THEN ObsVal(ev, "b") ELSE ObsVal(ev, "c")>>]

Verdict ==
  IF Ev.k = "reset" THEN {}
  ELSE LET hx == Expected IN
       Viol("TABLE_HEAP_OUTCOME", Ev.oc = "ok")
  \cup Viol("TABLE_HEAP_DATA", \A n \in Names : Ev.tab[n] = Val(hx, n).tab)
  \cup Viol("TABLE_HEAP_TOLERANCE", \A n \in Names : Ev.tol[n] = Val(hx, n).tol)
  \cup Viol("TABLE_COPY_INDEPENDENT", (Ev.o.t \in {"copy", "new"}) =>
                 \A p \in ObsPairs(Ev) : Ev.o.dst \notin {SubSeq(p, 1, 1), SubSeq(p, 2, 2)})
  \cup Viol("TABLE_QUERY_PURE", Ev.o.t = "query" => Ev.pure = 1)

Init == TraceInit(EmptyHeap)
Next == StepWith(Verdict, IF Ev.k = "reset" THEN EmptyHeap ELSE Observed(Ev))
Spec == Init /\ [][Next]_<<l, st>>
=============================================================================
