------------------------------ MODULE MC_Leap ------------------------------
(* every (year, month) 1950..2100 *)
EXTENDS LeapSeconds, TLC
VARIABLES y, m
Init == y \in 1950..2100 /\ m \in 1..12
Next == UNCHANGED <<y, m>>
Spec == Init /\ [][Next]_<<y, m>>
NextMonth == IF m = 12 THEN <<y + 1, 1>> ELSE <<y, m + 1>>
Monotone == LET n == NextMonth IN Cum(n[1], n[2]) \in {Cum(y, m), Cum(y, m) + 1}
OnlyJanJul == LET n == NextMonth IN (Cum(n[1], n[2]) # Cum(y, m)) => n[2] \in {1, 7}
Ends == (Cum(y, m) = 0 <=> (y < 1972 \/ (y = 1972 /\ m < 7))) /\ ((y >= 2017) => Cum(y, m) = 27)
Anchors == /\ ((y = 1980 /\ m = 1) => Cum(y, m) = 9)  /\ ((y = 1999 /\ m = 1) => Cum(y, m) = 22)
           /\ ((y = 2000 /\ m = 1) => OffsetMs(y, m) = 64184) /\ ((y = 2016 /\ m = 12) => Cum(y, m) = 26)
           /\ ((y = 1972 /\ m = 1) => OffsetMs(y, m) = 42184) /\ ((y = 1971 /\ m = 12) => OffsetMs(y, m) = 0)
           /\ ((y = 2017 /\ m = 1) => OffsetMs(y, m) = 69184)
LookupRefines == LeapCode(y, m) = Cum(y, m)
EndLeapMonths == EndsWithLeap(y, m) => (m \in {6, 12} /\ LET n == NextMonth IN Cum(n[1], n[2]) = Cum(y, m) + 1)
=============================================================================
