SPECIFICATION Spec
CONSTANT Kind = "epoch"
POSTCONDITION Consumed
CHECK_DEADLOCK FALSE
