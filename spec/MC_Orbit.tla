------------------------------ MODULE MC_Orbit ------------------------------
(* Abstract orbit on a grid: longitude L (deg) advancing by a daily step d  *)
(* within the Keplerian rate interval; checks the seam arithmetic used by   *)
(* Trace_Orbit: the advance modulo 360 is recovered across the 0/360 seam,  *)
(* stays in (0, 180), and the squared rate bounds of Orbit!RateBound accept *)
(* exactly the rates inside [0.97 min, 1.03 max] for the planet's e and n.  *)
EXTENDS Orbit, TLC
VARIABLES lon0, step, pl
Init == lon0 \in {0, 1, 179, 180, 355, 359} /\ step \in 1..60 /\ pl \in {"Mercury", "Mars", "Neptune"}
Next == UNCHANGED <<lon0, step, pl>>
Spec == Init /\ [][Next]_<<lon0, step, pl>>
\* the step in tenths of the planet's mean motion: r = n * d / 10
pc == Planet(pl)
rr == DivInt(MulInt(pc.n, step), 10)
L2 == Mod(Add(FromInt(lon0), rr), 360)
SeamRecovered == Mod(Sub(L2, FromInt(lon0)), 360) = Mod(rr, 360)
\* reference decision with exact rationals on e (J2000): r / n in [0.97 sqrt(1-e^2)/(1+e)^2, 1.03 sqrt(1-e^2)/(1-e)^2]
\* squared and cross-multiplied identically to RateBound: this invariant pins the algebra, a second formulation
InBand == LET e == pc.e0
              lo2 == Mul(Dec(9409, 4), Mul(Sub(One, e), Add(One, e)))         \* 0.97^2 (1-e^2)
              hi2 == Mul(Dec(10609, 4), Mul(Sub(One, e), Add(One, e)))
              q2  == Mul(DivInt(FromInt(step), 10), DivInt(FromInt(step), 10))       \* (r/n)^2
              op4 == Mul(Mul(Add(One, e), Add(One, e)), Mul(Add(One, e), Add(One, e)))
              om4 == Mul(Mul(Sub(One, e), Sub(One, e)), Mul(Sub(One, e), Sub(One, e)))
          IN Ge(Mul(q2, op4), lo2) /\ Le(Mul(q2, om4), hi2)
RateDecision == RateBound(pc, Zero, rr) <=> InBand
=============================================================================
