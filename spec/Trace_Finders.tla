---------------------------- MODULE Trace_Finders ----------------------------
(***************************************************************************)
(* C13 conformance.                                                        *)
(*  "q":  one query of finder f (variant v) at instant q (Fix JDE), y =    *)
(*        civil year of the query, r = returned instant, x = reported      *)
(*        angle / radius, oc outcome.  One trace = one finder variant,     *)
(*        queries in increasing order.                                     *)
(*  "ev": a returned event with five samples s of the quantity that        *)
(*        defines it (kind "lon": longitude difference with the Sun minus  *)
(*        0/180 wrapped to +-180; "elong": elongation; "station":          *)
(*        geocentric longitude relative to the centre sample; "radius":    *)
(*        radius vector; "node": heliocentric latitude), rep = reported    *)
(*        elongation, aux = kind-specific discriminator.                   *)
(***************************************************************************)
EXTENDS TraceKit, Finders

YearIn(y)  == y >= -2000 /\ y <= 3999
YearOut(y) == y <= -2001 \/ y >= 4001

VerdictQ ==
  LET c == Finder(Ev.f) IN
  IF c.ranged /\ YearOut(Ev.y) THEN Viol("RANGE_REFUSED", Ev.oc = "ValueError")
  ELSE IF ~YearIn(Ev.y) THEN {}
  ELSE Viol("FINDER_TOTAL", Ev.oc = "ok")
  \cup (IF Ev.oc # "ok" THEN {} ELSE
        Viol("WITHIN_ONE_PERIOD", WithinOnePeriod(c, Ev.q, Ev.r))
   \* consecutive queries less than half a period apart are related (no event can hide between them)
   \cup (IF st.have /\ st.f = Ev.f /\ st.v = Ev.v /\ Le(st.q, Ev.q) /\ Lt(Sub(Ev.q, st.q), DivInt(c.P, 2)) THEN
             Viol("NEVER_BACKWARDS", NeverBackwards(c, st.r, Ev.r))
        \* coarse forms are enforced for EVERY finder, also where a known finding covers the fine clause
        \cup Viol("NEVER_BACKWARDS_COARSE", Ge(Ev.r, Sub(st.r, DivInt(c.P, 200))))
        \cup Viol("ONE_PERIOD_APART", ~NeverBackwards(c, st.r, Ev.r) \/ OnePeriodApart(c, st.r, Ev.r))
        \cup Viol("SAME_EVENT_SAME_INSTANT", StableOK(c, st.r, Ev.r))
         ELSE {}))

VerdictEv ==
  LET s == Ev.s IN
  IF Ev.oc # "ok" THEN (IF Ev.oc = "ValueError" /\ Ev.kind = "none" THEN {"FINDER_TOTAL"} ELSE {"EVENT_POSITIONS"})
  ELSE CASE Ev.kind = "lon" ->
              Viol("EVENT_LONGITUDE_DIFFERENCE", SignChangeAcross(s) /\ Lt(Abs(s[3]), FromInt(5)))
         \cup Viol("EVENT_INFERIOR_SUPERIOR",
                   \* aux = heliocentric longitude of the planet minus the Earth's: near 0 inferior, near 180 superior
                   /\ (Ev.fn = "inferior_conjunction" => Lt(Abs(Ev.aux), FromInt(90)))
                   /\ (Ev.fn = "superior_conjunction" => Gt(Abs(Ev.aux), FromInt(90))))
         [] Ev.kind = "elong" ->
              Viol("EVENT_ELONGATION_MAXIMAL", MaxInside(s))
         \cup Viol("EVENT_ELONGATION_WITHIN_TOL", MaxWithinTol(Ev.dl, Ev.dr))
         \cup Viol("EVENT_ELONGATION_REPORTED", Within(Ev.rep, Max3(s[2], s[3], s[4]), Dec(1, 1)))
         \cup Viol("EVENT_EAST_WEST", (Ev.fn = "eastern_elongation" => Sgn(Ev.aux) = 1) /\ (Ev.fn = "western_elongation" => Sgn(Ev.aux) = -1))
         [] Ev.kind = "station" ->        \* station 1: direct -> retrograde (longitude maximal); station 2: the reverse
              Viol("EVENT_STATIONARY", IF Ev.fn = "station_longitude_1" THEN MaxInside(s) ELSE MinInside(s))
         \cup Viol("EVENT_STATIONARY_WITHIN_TOL", IF Ev.fn = "station_longitude_1" THEN MaxWithinTol(Ev.dl, Ev.dr) ELSE MinWithinTol(Ev.dl, Ev.dr))
         [] Ev.kind = "radius" ->
              Viol("EVENT_RADIUS_EXTREMAL", IF Ev.v = 1 THEN MinInside(s) ELSE MaxInside(s))
         \cup Viol("EVENT_RADIUS_WITHIN_TOL", IF Ev.v = 1 THEN MinWithinTol(Ev.dl, Ev.dr) ELSE MaxWithinTol(Ev.dl, Ev.dr))
         [] Ev.kind = "node" ->
              Viol("EVENT_LATITUDE_ZERO", IF Ev.v = 1 THEN RisingAcross(s) ELSE FallingAcross(s))
         \cup Viol("EVENT_LATITUDE_SMALL", Le(Abs(s[3]), Dec(2, 1)))
         [] OTHER -> {"UNKNOWN_KIND"}

Verdict == IF Ev.k = "q" THEN VerdictQ ELSE VerdictEv

Advance == IF Ev.k = "q" /\ Ev.oc = "ok" THEN [have |-> TRUE, f |-> Ev.f, v |-> Ev.v, q |-> Ev.q, r |-> Ev.r]
           ELSE [have |-> FALSE, f |-> "", v |-> 0, q |-> Zero, r |-> Zero]
Init == TraceInit([have |-> FALSE, f |-> "", v |-> 0, q |-> Zero, r |-> Zero])
Next == StepWith(Verdict, Advance)
Spec == Init /\ [][Next]_<<l, st>>
=============================================================================
