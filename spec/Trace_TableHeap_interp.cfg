SPECIFICATION Spec
CONSTANT Kind = "interp"
POSTCONDITION Consumed
CHECK_DEADLOCK FALSE
