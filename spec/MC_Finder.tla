------------------------------ MODULE MC_Finder ------------------------------
(* Abstract finder on an integer time line: events at E(k) = 40 k + w(k)   *)
(* with a bounded periodic wobble w; Nearest(q) = the event closest to q.  *)
(* TLC checks, for every query and every following query less than half a  *)
(* period later, the protocol laws the trace specification imposes on the  *)
(* real finders: never backwards, consecutive distinct results exactly one *)
(* event apart (gap within the variation), result within one period.       *)
EXTENDS Integers, TLC
VARIABLES q, q2
P == 40
W(k) == CASE k % 3 = 0 -> 3 [] k % 3 = 1 -> -4 [] OTHER -> 1
E(k) == P * k + W(k)
Ks == -2..12
Abs(x) == IF x < 0 THEN -x ELSE x
Nearest(x) == CHOOSE k \in Ks : \A j \in Ks : Abs(E(k) - x) <= Abs(E(j) - x) /\ (Abs(E(k) - x) = Abs(E(j) - x) => k <= j)
Init == q \in 0..400 /\ q2 \in 0..400 /\ q2 >= q /\ q2 - q < P \div 2
Next == UNCHANGED <<q, q2>>
Spec == Init /\ [][Next]_<<q, q2>>
NeverBackwards == E(Nearest(q2)) >= E(Nearest(q))
NoSkip == Nearest(q2) - Nearest(q) \in {0, 1}
OnePeriodApart == (Nearest(q2) # Nearest(q)) => (E(Nearest(q2)) - E(Nearest(q))) \in (P - 8)..(P + 8)
WithinOnePeriod == Abs(E(Nearest(q)) - q) <= P
=============================================================================
