------------------------------ MODULE TableHeap ------------------------------
(***************************************************************************)
(* A heap of TABLE objects (Interpolation or CurveFitting) referenced by   *)
(* program names: "copies made by copy-constructors do not share state     *)
(* with their source", set() changes only the object it is called on,      *)
(* queries (evaluation, root, fit) change nothing (C12, C17, C20).         *)
(*                                                                         *)
(*   name : Names -> object id      obj : object id -> [tab, tol]          *)
(*   tab \in 0..3 identifies the data the object holds (0 = empty);        *)
(*   tol \in 0..2 the tolerance setting (0 = default), Interpolation only  *)
(*                                                                         *)
(*   "new"    dst := fresh object built from table k                       *)
(*   "alias"  dst := the object l refers to                                *)
(*   "copy"   dst := fresh object, copy-constructed from l                 *)
(*   "set"    the object l refers to is given table k IN PLACE             *)
(*   "settol" its tolerance is set to k IN PLACE                           *)
(*   "query"  evaluation / root / fit on l: nothing changes                *)
(***************************************************************************)
EXTENDS Integers, Sequences, FiniteSets
CONSTANT Kind          \* "interp" or "fit"

Names == {"a", "b", "c"}
Blank == [tab |-> 0, tol |-> 0]
EmptyHeap == [name |-> [n \in Names |-> CASE n = "a" -> 1 [] n = "b" -> 2 [] OTHER -> 3],
              obj  |-> <<Blank, Blank, Blank>>]
Val(h, n) == h.obj[h.name[n]]
Fresh(h, dst, v) == [name |-> [h.name EXCEPT ![dst] = Len(h.obj) + 1], obj |-> Append(h.obj, v)]

Apply(h, o) ==
  CASE o.t = "new"    -> Fresh(h, o.dst, [tab |-> o.k, tol |-> 0])
    [] o.t = "alias"  -> [h EXCEPT !.name[o.dst] = h.name[o.l]]
    [] o.t = "copy"   -> Fresh(h, o.dst, Val(h, o.l))
    [] o.t = "set"    -> [h EXCEPT !.obj[h.name[o.l]].tab = o.k]
    [] o.t = "settol" -> [h EXCEPT !.obj[h.name[o.l]].tol = o.k]
    [] OTHER -> h        \* "query"
=============================================================================
