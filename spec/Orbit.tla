------------------------------- MODULE Orbit -------------------------------
(***************************************************************************)
(* C07: a planet's heliocentric trajectory as a behaviour (t, L, B, R).    *)
(* Planet(p) = mean elements of Meeus' Table 31.A (equinox of date):       *)
(*   a (AU), e = e0 + e1 T, i = i0 + i1 T (deg), n = mean motion deg/day,  *)
(*   amp = perturbation amplitude allowed against the two-body position    *)
(*   (squared chord of the angle, and relative distance)                   *)
(* T in Julian centuries from J2000.  All literals are typed here, none is *)
(* read from the code.                                                     *)
(***************************************************************************)
EXTENDS Fix

PlanetRow(p) ==
  CASE p = "Mercury" -> [a |-> Dec(387098310, 9),  e0 |-> Dec(20563175, 8), e1 |-> Dec(2041, 8),    i0 |-> Dec(7004986, 6), i1 |-> Dec(18215, 7),   n |-> Dec(40923771, 7), ampd |-> Dec(1, 1)]
    [] p = "Venus"   -> [a |-> Dec(723329820, 9),  e0 |-> Dec(677188, 8),   e1 |-> Neg(Dec(4777, 8)), i0 |-> Dec(3394662, 6), i1 |-> Dec(10037, 7),   n |-> Dec(16021687, 7), ampd |-> Dec(1, 1)]
    [] p = "Earth"   -> [a |-> Add(One, Dec(1018, 9)), e0 |-> Dec(1670862, 8), e1 |-> Neg(Dec(4204, 8)), i0 |-> Zero, i1 |-> Zero,                      n |-> Dec(9856474, 7),  ampd |-> Dec(1, 1)]
    [] p = "Mars"    -> [a |-> Add(One, Dec(523679342, 9)), e0 |-> Dec(9340062, 8), e1 |-> Dec(9048, 8), i0 |-> Dec(1849726, 6), i1 |-> Neg(Dec(6011, 7)), n |-> Dec(5240711, 7), ampd |-> Dec(1, 1)]
    [] p = "Jupiter" -> [a |-> Add(FromInt(5), Dec(202603191, 9)), e0 |-> Dec(4849485, 8), e1 |-> Dec(16323, 8), i0 |-> Dec(1303267, 6), i1 |-> Neg(Dec(54965, 7)), n |-> Dec(831294, 7), ampd |-> One]
    [] p = "Saturn"  -> [a |-> Add(FromInt(9), Dec(554909596, 9)), e0 |-> Dec(5550862, 8), e1 |-> Neg(Dec(34664, 8)), i0 |-> Dec(2488879, 6), i1 |-> Neg(Dec(37362, 7)), n |-> Dec(334979, 7), ampd |-> Dec(15, 1)]
    [] p = "Uranus"  -> [a |-> Add(FromInt(19), Dec(218446062, 9)), e0 |-> Dec(4629590, 8), e1 |-> Neg(Dec(2729, 8)), i0 |-> Dec(773197, 6), i1 |-> Dec(7744, 7), n |-> Dec(117690, 7), ampd |-> FromInt(2)]
    [] p = "Neptune" -> [a |-> Add(FromInt(30), Dec(110386869, 9)), e0 |-> Dec(898809, 8), e1 |-> Dec(603, 8), i0 |-> Dec(1769953, 6), i1 |-> Neg(Dec(93082, 7)), n |-> Dec(60201, 7), ampd |-> Dec(25, 1)]
PlanetNames == {"Mercury", "Venus", "Earth", "Mars", "Jupiter", "Saturn", "Uranus", "Neptune"}
PlanetTable == [p \in PlanetNames |-> PlanetRow(p)]
Planet(p) == PlanetTable[p]

Cent(t) == DivInt(Sub(t, FromInt(2451545)), 36525)
Ecc(c, T) == Add(c.e0, Mul(c.e1, T))
Incl(c, T) == Abs(Add(c.i0, Mul(c.i1, T)))

LonRange(L) == Ge(L, Zero) /\ Lt(L, FromInt(360))
LatBound(c, T, bb) == Le(Abs(bb), Add(Incl(c, T), Dec(5, 2)))
RadiusBound(c, T, R) ==
  LET e == Ecc(c, T) IN
  /\ Ge(R, Mul(Mul(c.a, Sub(One, e)), Dec(99, 2)))
  /\ Le(R, Mul(Mul(c.a, Add(One, e)), Dec(101, 2)))
\* daily rate r = dL/dt within 3 % of the Keplerian extremes n sqrt(1-e^2) / (1 +- e)^2, squared to avoid the root
RateBound(c, T, r) ==
  LET e == Ecc(c, T)
      om == Sub(One, e)  op == Add(One, e)
      k == Mul(Mul(c.n, c.n), Mul(om, op))                 \* n^2 (1 - e^2)
      r2 == Mul(r, r)
  IN /\ Gt(r, Zero)
     /\ Le(Mul(r2, Mul(Mul(om, om), Mul(om, om))), Mul(k, Dec(10609, 4)))     \* r <= 1.03 max
     /\ Ge(Mul(r2, Mul(Mul(op, op), Mul(op, op))), Mul(k, Dec(9409, 4)))      \* r >= 0.97 min
\* squared chord of an angle of d degrees (small d):  (d pi / 180)^2 to better than 1e-4 relative for d <= 2.5
PiF == Add(FromInt(3), Add(Dec(1415926535, 10), Add(Dec(8979, 14), Dec(32, 16))))
Chord2(d) == LET r == DivInt(Mul(d, PiF), 180) IN Mul(r, r)
Dot(u, v) == Add(Add(Mul(u[1], v[1]), Mul(u[2], v[2])), Mul(u[3], v[3]))
ChordSq(u, v) == LET d == <<Sub(u[1], v[1]), Sub(u[2], v[2]), Sub(u[3], v[3])>> IN Dot(d, d)
Unit(u) == Within(Dot(u, u), One, Dec(1, 12))
GaussK2 == Mul(Dec(1720209895, 11), Dec(1720209895, 11))
=============================================================================
