----------------------------- MODULE Trace_Sphere -----------------------------
(***************************************************************************)
(* C05 conformance.  Directions are unit vectors (witnesses, norm checked).*)
(*  "ecl": u = equatorial direction, ce se = cos/sin of the obliquity, v = *)
(*         equatorial2ecliptical(u), w = ecliptical2equatorial(v); lon lat *)
(*         = the angles of v as returned (deg); and the same the other way *)
(*         round: p (ecliptical) -> q -> p2, lonq latq                     *)
(*  "hor": u = (hour angle, declination) direction, sphi cphi, v = result  *)
(*         of equatorial2horizontal, w = back; p (azimuth, elevation) ->   *)
(*         q -> p2; elevation / declination returned (deg)                 *)
(*  "gal": G = images of the three equatorial axes under                   *)
(*         equatorial2galactic; u -> v -> w; lon lat returned; pole = the  *)
(*         image of (192.25, 27.4)                                         *)
(*  "sep": u1 u2, d = angular_separation (deg) with cd sd = cos/sin d, d21 *)
(*         the separation with the arguments swapped, sh ch = sin/cos d/2  *)
(*  "pa":  u1, e2 n2 = east / north unit vectors at body 2, P = relative   *)
(*         position angle with cP sP, sq as above                          *)
(*  "circ": D = circle_diameter, m = largest of the three separations      *)
(***************************************************************************)
EXTENDS TraceKit, Sphere

Deg9(u, v) == SameDirection(u, v, 1, 9)
\* coarse agreement (1e-5 degree), enforced EVERYWHERE: next to a pole the asin() of the library only keeps 1e-7..1e-6
\* degree (a known finding for the 1e-9 clauses), but a direction that is wrong by more than that is a different defect
Deg5(u, v) == SameDirection(u, v, 1, 5)
LatOK(x) == Le(Abs(x), FromInt(90))
LonOK(x) == Ge(x, Zero) /\ Lt(x, FromInt(360))
Delta9 == DivInt(Mul(Dec(1, 9), PiS), 180)          \* 1e-9 degree in radians

VerdictEcl ==
     Viol("WITNESS", IsUnit(Ev.u) /\ IsUnit(Ev.v) /\ IsUnit(Ev.w) /\ IsUnit(Ev.p) /\ IsUnit(Ev.q) /\ IsUnit(Ev.p2) /\ IsSC(Ev.ce, Ev.se))
\cup Viol("ECLIPTICAL_IS_ROTATION", Deg9(Ev.v, RotX(Ev.u, Ev.ce, Ev.se)) /\ Deg9(Ev.q, RotXInv(Ev.p, Ev.ce, Ev.se)))
\cup Viol("ECLIPTICAL_INVERSE", Deg9(Ev.w, Ev.u) /\ Deg9(Ev.p2, Ev.p))
\cup Viol("ECLIPTICAL_COARSE", /\ Deg5(Ev.v, RotX(Ev.u, Ev.ce, Ev.se)) /\ Deg5(Ev.q, RotXInv(Ev.p, Ev.ce, Ev.se))
                               /\ Deg5(Ev.w, Ev.u) /\ Deg5(Ev.p2, Ev.p))
\cup Viol("ECLIPTICAL_RANGE", LonOK(Ev.lon) /\ LatOK(Ev.lat) /\ LonOK(Ev.lonq) /\ LatOK(Ev.latq))

VerdictHor ==
     Viol("WITNESS", IsUnit(Ev.u) /\ IsUnit(Ev.v) /\ IsUnit(Ev.w) /\ IsUnit(Ev.p) /\ IsUnit(Ev.q) /\ IsUnit(Ev.p2) /\ IsSC(Ev.cphi, Ev.sphi))
\cup Viol("HORIZONTAL_IS_ROTATION", Deg9(Ev.v, ToHorizon(Ev.u, Ev.sphi, Ev.cphi)) /\ Deg9(ToHorizon(Ev.q, Ev.sphi, Ev.cphi), Ev.p))
\cup Viol("HORIZONTAL_INVERSE", Deg9(Ev.w, Ev.u) /\ Deg9(Ev.p2, Ev.p))
\cup Viol("HORIZONTAL_COARSE", /\ Deg5(Ev.v, ToHorizon(Ev.u, Ev.sphi, Ev.cphi)) /\ Deg5(ToHorizon(Ev.q, Ev.sphi, Ev.cphi), Ev.p)
                               /\ Deg5(Ev.w, Ev.u) /\ Deg5(Ev.p2, Ev.p))
\cup Viol("HORIZONTAL_RANGE", LatOK(Ev.lat) /\ LatOK(Ev.latq))

VerdictGal ==
  LET G == Ev.G
      lin == <<Add(Add(Mul(Ev.u[1], G[1][1]), Mul(Ev.u[2], G[2][1])), Mul(Ev.u[3], G[3][1])),
               Add(Add(Mul(Ev.u[1], G[1][2]), Mul(Ev.u[2], G[2][2])), Mul(Ev.u[3], G[3][2])),
               Add(Add(Mul(Ev.u[1], G[1][3]), Mul(Ev.u[2], G[2][3])), Mul(Ev.u[3], G[3][3]))>>
  IN Viol("WITNESS", IsUnit(Ev.u) /\ IsUnit(Ev.v) /\ IsUnit(Ev.w) /\ IsUnit(Ev.pole))
\* the images of the axes are orthonormal and right-handed: the conversion is a rotation ...
\cup Viol("GALACTIC_AXES_ORTHONORMAL",
          /\ \A i \in 1..3 : IsUnit(G[i])
          /\ Le(Abs(Dot(G[1], G[2])), Dec(1, 10)) /\ Le(Abs(Dot(G[1], G[3])), Dec(1, 10)) /\ Le(Abs(Dot(G[2], G[3])), Dec(1, 10))
          /\ Within(Dot(Cross(G[1], G[2]), G[3]), One, Dec(1, 10)))
\* ... and every direction is carried by that same rotation (angles between directions are unchanged)
\cup Viol("GALACTIC_IS_ROTATION", Deg9(Ev.v, lin))
\cup Viol("GALACTIC_INVERSE", Deg9(Ev.w, Ev.u))
\* galactic2equatorial on its own: the direction q it returns for (lon, lat) read as galactic coordinates is carried
\* back onto that direction by the same linear map
\cup Viol("GALACTIC_TO_EQUATORIAL_IS_ROTATION",
          Deg9(<<Add(Add(Mul(Ev.q[1], G[1][1]), Mul(Ev.q[2], G[2][1])), Mul(Ev.q[3], G[3][1])),
                 Add(Add(Mul(Ev.q[1], G[1][2]), Mul(Ev.q[2], G[2][2])), Mul(Ev.q[3], G[3][2])),
                 Add(Add(Mul(Ev.q[1], G[1][3]), Mul(Ev.q[2], G[2][3])), Mul(Ev.q[3], G[3][3]))>>, Ev.u))
\cup Viol("GALACTIC_COARSE", Deg5(Ev.v, lin) /\ Deg5(Ev.w, Ev.u))
\cup Viol("GALACTIC_POLE", Ge(Ev.pole[3], Sub(One, Dec(1, 12))))
\cup Viol("GALACTIC_RANGE", LonOK(Ev.lon) /\ LatOK(Ev.lat) /\ LonOK(Ev.lonq) /\ LatOK(Ev.latq))

\* The separation is judged through chords, which keep their precision at both ends of the range:
\* |u1 - u2| = 2 sin(d/2) for d <= 90 and |u1 + u2| = 2 cos(d/2) beyond (sh ch = sin/cos of d/2, verified).
VerdictSep ==
  LET dt == Dot(Ev.u1, Ev.u2)
      t  == MulInt(Delta9, S8)                                  \* 1e-9 degree, scaled
      near == ChordSq8(Ev.u1, Ev.u2)
      far  == ChordSq8(Ev.u1, <<Neg(Ev.u2[1]), Neg(Ev.u2[2]), Neg(Ev.u2[3])>>)
      cs == MulInt(MulInt(Ev.sh, 2), S8)                         \* 2 sin(d/2) 1e8
      cc == MulInt(MulInt(Ev.ch, 2), S8)
      Close(obs2, c) == Le(Abs(Sub(obs2, Mul(c, c))), Add(Mul(MulInt(c, 2), t), Mul(t, t)))
  IN Viol("WITNESS", IsUnit(Ev.u1) /\ IsUnit(Ev.u2) /\ IsSC(Ev.ch, Ev.sh) /\ Ge(Ev.sh, Zero) /\ Ge(Ev.ch, Zero))
\cup Viol("SEPARATION_VALUE", /\ (IF Ge(dt, Zero) THEN Close(near, cs) ELSE Close(far, cc))
                              /\ Ge(Ev.d, Zero) /\ Le(Ev.d, FromInt(180)))
\cup Viol("SEPARATION_SYMMETRIC", Within(Ev.d, Ev.d21, Dec(1, 12)))

VerdictPa ==
  LET pe == Dot(Ev.u1, Ev.e2)  pn == Dot(Ev.u1, Ev.n2) IN
     Viol("WITNESS", IsUnit(Ev.u1) /\ IsUnit(Ev.e2) /\ IsUnit(Ev.n2) /\ IsSC(Ev.cP, Ev.sP) /\ Le(Abs(Dot(Ev.e2, Ev.n2)), Dec(1, 12)))
\* the projection of body 1 on the tangent plane at body 2 is (pe, pn) = |proj| (sin P, cos P)
\cup Viol("POSITION_ANGLE_VALUE", /\ Le(Abs(Sub(Mul(pe, Ev.cP), Mul(pn, Ev.sP))), Mul(Delta9, Add(Ev.sq, Dec(1, 6))))
                                  /\ Gt(Add(Mul(pe, Ev.sP), Mul(pn, Ev.cP)), Zero))

Sqrt3 == Add(One, Add(Dec(732050807, 9), Dec(5688772, 16)))
VerdictCirc ==
     Viol("CIRCLE_AT_LEAST_LARGEST_SEPARATION", Ge(Mul(Ev.D, Add(One, Dec(1, 9))), Ev.m))
\cup Viol("CIRCLE_AT_MOST_CIRCUMSCRIBED", Le(Mul(Ev.D, Sqrt3), Mul(MulInt(Ev.m, 2), Add(One, Dec(1, 5)))))

\* a conversion that raises for a well-typed direction (the driver logs k = "raise" with the function and the input)
Verdict == CASE Ev.k = "raise" -> {"CONVERSION_TOTAL"} [] Ev.k = "ecl" -> VerdictEcl [] Ev.k = "hor" -> VerdictHor [] Ev.k = "gal" -> VerdictGal
             [] Ev.k = "sep" -> VerdictSep [] Ev.k = "pa" -> VerdictPa [] Ev.k = "circ" -> VerdictCirc [] OTHER -> {"UNKNOWN_KIND"}
Init == TraceInit(0)
Next == StepWith(Verdict, 0)
Spec == Init /\ [][Next]_<<l, st>>
=============================================================================
