----------------------------- MODULE MC_TableHeap -----------------------------
(* every sequence of table-heap operations up to Depth; the behaviours     *)
(* (hist) are printed at full depth and replayed on real Interpolation /   *)
(* CurveFitting objects by the harness (spec -> code)                      *)
EXTENDS TableHeap, TLC, Json, IOUtils
VARIABLES h, hist
Depth == atoi(IOEnv.HEAP_DEPTH)
Rec(t, dst, l, k) == [t |-> t, dst |-> dst, l |-> l, k |-> k]
AllOps ==
       {Rec("new", d, "", k) : d \in Names, k \in 1..3}
  \cup {Rec("alias", d, l, 0) : d \in Names, l \in Names}
  \cup {Rec("copy", d, l, 0) : d \in Names, l \in Names}
  \cup {Rec("set", l, l, k) : l \in Names, k \in 1..3}
  \cup (IF Kind = "interp" THEN {Rec("settol", l, l, k) : l \in Names, k \in 1..2} ELSE {})
  \cup {Rec("query", l, l, 0) : l \in Names}
\* copying or querying an object that holds no data yet is outside the API's domain
Enabled(o) == /\ (o.t \in {"copy", "query"}) => Val(h, o.l).tab # 0
              /\ ~(o.t = "alias" /\ o.dst = o.l)

Init == h = EmptyHeap /\ hist = <<>>
Step(o) == Len(hist) < Depth /\ Enabled(o) /\ h' = Apply(h, o) /\ hist' = Append(hist, o)
Next == \E o \in AllOps : Step(o)
Spec == Init /\ [][Next]_<<h, hist>>

Last == hist'[Len(hist')]
\* only the mutators change an existing object, and only the one their target refers to
ObjectsImmutable ==
  [][\A i \in 1..Len(h.obj) : (h'.obj[i] # h.obj[i]) => (Last.t \in {"set", "settol"} /\ h.name[Last.l] = i)]_<<h, hist>>
OnlyDstRebound == [][\A n \in Names : (h'.name[n] # h.name[n]) => n = Last.dst]_<<h, hist>>
\* a copy never shares an object with any other name at the moment it is made
CopyIsFresh == [][Last.t = "copy" => \A n \in Names \ {Last.dst} : h'.name[n] # h'.name[Last.dst]]_<<h, hist>>
QueriesArePure == [][Last.t = "query" => h' = h]_<<h, hist>>
Emit == (Len(hist) = Depth) => PrintT(<<"BEH", ToJson(hist)>>)
=============================================================================
