------------------------------ MODULE MC_ObjHeap ------------------------------
(* Small-scope model: every sequence of heap operations up to Depth over a *)
(* small value grid.  Invariants are the frame laws; the behaviours        *)
(* themselves (variable hist, printed as JSON at full depth) are replayed  *)
(* on real Angle / Epoch objects by the harness (spec -> code).            *)
EXTENDS ObjHeap, TLC, Json, IOUtils
VARIABLES h, hist
Depth == atoi(IOEnv.HEAP_DEPTH)
Ks == IF Kind = "angle" THEN {8, -1440, 5600} ELSE {8, -24, 16000}
K2 == IF Kind = "angle" THEN {-1440, 5600, 0, 16} ELSE {8, -24, 0}        \* incl. the neutral operands 0 and 1
Ops == IF Kind = "angle" THEN {"add", "sub", "mul"} ELSE {"add", "sub"}
Rec(t, op, dst, l, r, k) == [t |-> t, op |-> op, dst |-> dst, l |-> l, r |-> r, k |-> k]
AllOps ==
       {Rec("new", "", d, "", "", k) : d \in Names, k \in Ks}
  \cup {Rec("alias", "", d, l, "", 0) : d \in Names, l \in Names}
  \cup {Rec("copy", "", d, l, "", 0) : d \in Names, l \in Names}
  \cup (IF Kind = "angle" THEN {Rec("bin", op, d, l, r, 0) : op \in {"add", "sub"}, d \in {"a", "c"}, l \in Names, r \in Names} ELSE {})
  \cup {Rec("num", op, d, l, "", k) : op \in Ops, d \in {"a", "c"}, l \in {"a", "b"}, k \in K2}
  \cup {Rec("rnum", op, d, l, "", k) : op \in (IF Kind = "angle" THEN {"add", "sub", "mul"} ELSE {"add"}), d \in {"a", "c"}, l \in {"a", "b"}, k \in K2}
  \cup (IF Kind = "angle" THEN {Rec("inp", op, l, l, r, 0) : op \in Ops, l \in Names, r \in Names} ELSE {})
  \cup {Rec("inpnum", op, l, l, "", k) : op \in Ops, l \in Names, k \in K2}
  \cup (IF Kind = "angle" THEN {Rec(t, "", d, l, "", 0) : t \in {"neg", "abs"}, d \in {"a", "c"}, l \in {"a", "b"}} ELSE {})
  \cup (IF Kind = "angle" THEN {Rec("mut", "to_positive", l, l, "", 0) : l \in Names} ELSE {})
  \cup {Rec("mut", "set", l, l, "", k) : l \in Names, k \in K2}
RealOps == {o \in AllOps : ~(o.t = "alias" /\ o.dst = o.l)}

Init == h = EmptyHeap /\ hist = <<>>
Step(o) == /\ Len(hist) < Depth
           /\ h' = Apply(h, o)
           /\ hist' = Append(hist, o)
Next == \E o \in RealOps : Step(o)
Spec == Init /\ [][Next]_<<h, hist>>

\* ---- frame laws (action properties) -----------------------------------------------
\* only "mut" changes an existing object, and only the one its target refers to
ObjectsImmutable ==
  [][\A i \in 1..Len(h.obj) :
        (h'.obj[i] # h.obj[i]) => (hist'[Len(hist')].t = "mut" /\ h.name[hist'[Len(hist')].l] = i)]_<<h, hist>>
\* only the destination name is rebound
OnlyDstRebound ==
  [][\A n \in Names : (h'.name[n] # h.name[n]) =>
        (n = hist'[Len(hist')].dst \/ (hist'[Len(hist')].t \in {"inp", "inpnum"} /\ n = hist'[Len(hist')].l))]_<<h, hist>>
\* every stored value is canonical
Canonical == \A i \in 1..Len(h.obj) : (Kind = "angle") => InOpenRange(h.obj[i])
\* emit complete behaviours for the replay harness
Emit == (Len(hist) = Depth) => PrintT(<<"BEH", ToJson(hist)>>)
=============================================================================
