---------------------------- MODULE Apa_Computus ----------------------------
(***************************************************************************)
(* Unbounded-years complement of MC_Computus, for Apalache (symbolic).     *)
(*  - Islamic arithmetic calendar: IslNext preserves "jdn = closed form"   *)
(*    from any valid date of any year h >= 1 (induction step), 30-year     *)
(*    cycle of 10631 days.                                                 *)
(*  - Easter: the recipe as coded equals the tabular (epact) definition,   *)
(*    falls on a Sunday and within 22 March..25 April, for every year.     *)
(***************************************************************************)
EXTENDS Computus
VARIABLES
  \* @type: { y: Int, m: Int, d: Int, jdn: Int };
  isl,
  \* @type: Int;
  yr

IslValid == isl.y >= 1 /\ isl.m \in 1..12 /\ isl.d >= 1 /\ isl.d <= IslMLen(isl.y, isl.m)
IslInd == IslValid /\ isl.jdn = IslJDN(isl.y, isl.m, isl.d)
IslCycle == IslNewYearJDN(isl.y + 30) - IslNewYearJDN(isl.y) = 10631
IslYearLen == IslNewYearJDN(isl.y + 1) - IslNewYearJDN(isl.y) = IslYLen(isl.y)
IslIndInit ==
  \E h \in Int : \E mm \in 1..12 : \E dd \in 1..30 :
    /\ h >= 1 /\ dd <= IslMLen(h, mm)
    /\ isl = [y |-> h, m |-> mm, d |-> dd, jdn |-> IslJDN(h, mm, dd)]
    /\ yr = 0
IslBase == isl = IslStart /\ yr = 0
Next == isl' = IslNext(isl) /\ yr' = yr

EasterInit == (\E Y \in Int : Y >= -4712 /\ yr = Y) /\ isl = IslStart
EasterGregInit == (\E Y \in Int : Y >= 1583 /\ yr = Y) /\ isl = IslStart
EasterJulInit == (\E Y \in Int : Y >= -4712 /\ Y <= 1582 /\ yr = Y) /\ isl = IslStart
EasterRecipe == EasterCode(yr) = EasterDef(yr)
EasterSunday == LET e == EasterDef(yr) IN DowOf(yr, e[1], e[2]) = 0
EasterRange == EasterMarchDay(yr) \in 22..56
=============================================================================
