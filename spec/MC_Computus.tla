---------------------------- MODULE MC_Computus ----------------------------
(* Design-level model checking of the Computus / Hebrew / Islamic          *)
(* reference semantics over their whole finite domains.                    *)
(*  MODE "easter": every year Y0..Y1 - recipe transcription = tabular      *)
(*        definition, Sunday, 22 March..25 April                           *)
(*  MODE "hebrew": every civil year Y0..Y1 - year lengths, lo-ADU-rosh,    *)
(*        Pesach weekday, Pesach in March/April of that civil year, anchors*)
(*  MODE "islamic": day chain of AH years Y0..Y1 - closed forms = chain,   *)
(*        month and year lengths, anchors                                  *)
EXTENDS Computus, TLC, IOUtils
VARIABLES Y, isl
MODE == IOEnv.CMP_MODE
Y0 == atoi(IOEnv.CMP_Y0)
Y1 == atoi(IOEnv.CMP_Y1)
Off == IF MODE = "easter" THEN 5000 ELSE 0         \* env ints are non-negative: Y = value - Off

Init == IF MODE = "islamic"
        THEN /\ Y = Y0 /\ isl = [y |-> Y0, m |-> 1, d |-> 1, jdn |-> IslNewYearJDN(Y0)]
        ELSE /\ Y \in (Y0 - Off)..(Y1 - Off) /\ isl = IslStart
Next == IF MODE = "islamic"
        THEN /\ ~(isl.y = Y1 /\ isl.m = 12 /\ isl.d = IslMLen(isl.y, 12))
             /\ isl' = IslNext(isl) /\ Y' = isl'.y
        ELSE UNCHANGED <<Y, isl>>
Spec == Init /\ [][Next]_<<Y, isl>>

\* ---- Easter ----------------------------------------------------------------
EasterRecipe == MODE = "easter" => EasterCode(Y) = EasterDef(Y)
EasterSunday == MODE = "easter" => LET e == EasterDef(Y) IN DowOf(Y, e[1], e[2]) = 0
EasterRange  == MODE = "easter" => EasterMarchDay(Y) \in 22..56          \* 22 March .. 25 April
EasterAnchors == MODE = "easter" =>
   /\ (Y = 1991 => EasterDef(Y) = <<3, 31>>) /\ (Y = 2000 => EasterDef(Y) = <<4, 23>>)
   /\ (Y = 1818 => EasterDef(Y) = <<3, 22>>) /\ (Y = 1943 => EasterDef(Y) = <<4, 25>>)
   /\ (Y = 2038 => EasterDef(Y) = <<4, 25>>) /\ (Y = 179 => EasterDef(Y) = <<4, 12>>)
   /\ (Y = 711 => EasterDef(Y) = <<4, 12>>) /\ (Y = 1243 => EasterDef(Y) = <<4, 12>>)
   /\ (Y = 2024 => EasterDef(Y) = <<3, 31>>) /\ (Y = 1582 => EasterDef(Y) = <<4, 15>>)
\* ---- Hebrew ----------------------------------------------------------------
HebrewYearLen == MODE = "hebrew" => HebYearLen(Y + 3760) \in {353, 354, 355, 383, 384, 385}
HebrewLeapLen == MODE = "hebrew" => (HebLeap(Y + 3760) <=> HebYearLen(Y + 3760) > 360)
HebrewLoAduRosh == MODE = "hebrew" => (RoshHashanahJDN(Y + 3761) + 1) % 7 \in {1, 2, 4, 6}
PesachWeekday == MODE = "hebrew" => PesachDow(Y) \in {0, 2, 4, 6}
PesachInYear  == MODE = "hebrew" => PesachYearOK(Y) /\ PesachDef(Y)[1] \in {3, 4}
HebrewAnchors == MODE = "hebrew" =>
   /\ (Y = 1990 => PesachDef(Y) = <<4, 10>>) /\ (Y = 2024 => PesachDef(Y) = <<4, 23>>)
   /\ (Y = 2023 => CivilOf(RoshHashanahJDN(5784)) = <<2023, 9, 16>>)
   /\ (Y = 1600 => PesachDef(Y) = <<3, 30>>)
\* ---- Islamic ---------------------------------------------------------------
IslClosedForm == MODE = "islamic" => IslJDN(isl.y, isl.m, isl.d) = isl.jdn
IslYearEnd == MODE = "islamic" =>
   ((isl.m = 12 /\ isl.d = IslMLen(isl.y, 12)) => isl.jdn - IslNewYearJDN(isl.y) + 1 = IslYLen(isl.y))
IslCycle == MODE = "islamic" => IslNewYearJDN(isl.y + 30) - IslNewYearJDN(isl.y) = 10631
IslAnchors == MODE = "islamic" =>
   /\ ((isl.y = 1 /\ isl.m = 1 /\ isl.d = 1) => (isl.jdn = IslEpochJDN /\ CivilOf(isl.jdn) = <<622, 7, 16>>
                                                  /\ (isl.jdn + 1) % 7 = 5))
   /\ ((isl.y = 1421 /\ isl.m = 1 /\ isl.d = 1) => CivilOf(isl.jdn) = <<2000, 4, 6>>)
   /\ ((isl.y = 1412 /\ isl.m = 2 /\ isl.d = 2) => CivilOf(isl.jdn) = <<1991, 8, 13>>)    \* Meeus example 9.b
=============================================================================
