------------------------------ MODULE MC_Angle ------------------------------
(* Design-level laws of the Angle value algebra on a dyadic grid (k/16):   *)
(* range and sign of Reduce, idempotence, congruence of every operator     *)
(* with the real-number result, ToPositive, sign-preserving modulo.        *)
EXTENDS AngleADT, TLC
VARIABLES ka, kb
K == {0, 1, -1, 8, -8, 16, -16, 1440, -1440, 2880, -2880, 5752, -5752, 5759, -5759, 5760, -5760, 5761, -5761,
      5768, 11519, -11519, 11520, -11520, 11524, 17280, -17281, 196, -732, 4800, -4800, 112, 16777224, -16777223}
Init == ka \in K /\ kb \in K
Next == UNCHANGED <<ka, kb>>
Spec == Init /\ [][Next]_<<ka, kb>>
A == FromRat(ka, 16)
Bv == FromRat(kb, 16)
\* exact integer model of Reduce on sixteenths
RedK(k) == IF k >= 0 THEN k % 5760 ELSE -((-k) % 5760)
ReduceMatchesIntegers == Reduce(A) = FromRat(RedK(ka), 16)
ReduceRange == InOpenRange(Reduce(A)) /\ SignOK(Sgn(Reduce(A)), Sgn(A))
ReduceIdempotent == Reduce(Reduce(A)) = Reduce(A)
ReduceCongruent == IsZero(Mod(Sub(Reduce(A), A), 360))
NegSymmetric == Reduce(Neg(A)) = Neg(Reduce(A))
AddCompatible == IsZero(Mod(Sub(Reduce(Add(Reduce(A), Reduce(Bv))), Add(A, Bv)), 360))
SubCompatible == IsZero(Mod(Sub(Reduce(Sub(Reduce(A), Reduce(Bv))), Sub(A, Bv)), 360))
MulByIntCompatible == (kb % 16 = 0) =>
      IsZero(Mod(Sub(Reduce(Mul(Reduce(A), Bv)), Mul(A, Bv)), 360))
PositiveRange == LET p == ToPositive(Reduce(A)) IN Ge(p, Zero) /\ Lt(p, F360) /\ IsZero(Mod(Sub(p, A), 360))
ModLaw == (kb > 0) =>
      LET n == FromInt((IF ka >= 0 THEN ka ELSE -ka) \div kb) IN
      /\ IsFloorQuot(n, A, Bv)
      /\ ModExact(n, A, Bv) = FromRat((IF ka >= 0 THEN 1 ELSE -1) * ((IF ka >= 0 THEN ka ELSE -ka) % kb), 16)
=============================================================================
