SPECIFICATION Spec
INVARIANT DotPreserved
INVARIANT InverseUndoes
INVARIANT HorizonPreserves
INVARIANT HorizonAnchors
INVARIANT CrossOrthogonal
CHECK_DEADLOCK FALSE
