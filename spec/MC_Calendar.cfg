SPECIFICATION Spec
INVARIANT Fwd
INVARIANT Bwd
INVARIANT Civil
INVARIANT Jan1Closed
INVARIANT Dow
INVARIANT GregorianDow
INVARIANT YearEnd
INVARIANT Doy
INVARIANT DoyMeeus
INVARIANT LeapRule
INVARIANT Anchors
INVARIANT MonthEdges
PROPERTY StepOne
CHECK_DEADLOCK FALSE
