SPECIFICATION Spec
CONSTANT Kind = "fit"
INVARIANT Emit
PROPERTY ObjectsImmutable
PROPERTY OnlyDstRebound
PROPERTY CopyIsFresh
PROPERTY QueriesArePure
CHECK_DEADLOCK FALSE
