------------------------------- MODULE ObjHeap -------------------------------
(***************************************************************************)
(* A heap of value objects (Angle or Epoch) referenced by program names:  *)
(* the state behind "operators return new objects and leave their         *)
(* operands unchanged; in-place operators REBIND; the documented mutators *)
(* change only self; copies do not share state" (C03, C02, C20).          *)
(*                                                                         *)
(*   name : Names -> object id          obj : object id -> value (Fix)    *)
(*                                                                         *)
(* An operation is a record [t, op, dst, l, r, k] (all fields always      *)
(* present): t = kind of step, op = arithmetic operator, dst/l/r = names, *)
(* k = a number in sixteenths (value k/16).                                *)
(*   "new"   dst := fresh object holding Canon(k/16)                        *)
(*   "alias" dst := the object l refers to            (python: dst = l)   *)
(*   "copy"  dst := fresh object with l's value        (copy constructor) *)
(*   "bin"   dst := fresh object  l op r               (r a name)         *)
(*   "num"   dst := fresh object  l op k/16                                *)
(*   "rnum"  dst := fresh object  k/16 op l            (reflected form)   *)
(*   "inp"   l op= r : l is REBOUND to a fresh object; the old object is  *)
(*           untouched, so every alias of it keeps its value               *)
(*   "inpnum" l op= k/16, same                                             *)
(*   "neg" / "abs"  dst := fresh object                                    *)
(*   "mut"   documented mutator on l in place: op = "to_positive" or      *)
(*           "set" (to k/16); every alias of the object sees it            *)
(* Kind "angle": values are reduced to (-360, 360); kind "epoch": a JDE,   *)
(* only add/sub of day offsets, no reduction.                              *)
(***************************************************************************)
EXTENDS AngleADT, Sequences, FiniteSets
CONSTANT Kind

Names == {"a", "b", "c"}
Canon(v) == IF Kind = "angle" THEN Reduce(v) ELSE v
Num(k) == FromRat(k, 16)

EmptyHeap == [name |-> [n \in Names |-> CASE n = "a" -> 1 [] n = "b" -> 2 [] OTHER -> 3],
              obj  |-> <<Zero, Zero, Zero>>]

Val(h, n) == h.obj[h.name[n]]
Fresh(h, dst, v) == [name |-> [h.name EXCEPT ![dst] = Len(h.obj) + 1], obj |-> Append(h.obj, Canon(v))]

Arith(op, x, y) == CASE op = "add" -> Add(x, y)
                     [] op = "sub" -> Sub(x, y)
                     [] op = "mul" -> Mul(x, y)
                     [] OTHER -> x

Apply(h, o) ==
  CASE o.t = "new"    -> Fresh(h, o.dst, Num(o.k))
    [] o.t = "alias"  -> [h EXCEPT !.name[o.dst] = h.name[o.l]]
    [] o.t = "copy"   -> Fresh(h, o.dst, Val(h, o.l))
    [] o.t = "bin"    -> Fresh(h, o.dst, Arith(o.op, Val(h, o.l), Val(h, o.r)))
    [] o.t = "num"    -> Fresh(h, o.dst, Arith(o.op, Val(h, o.l), Num(o.k)))
    [] o.t = "rnum"   -> Fresh(h, o.dst, Arith(o.op, Num(o.k), Val(h, o.l)))
    [] o.t = "inp"    -> Fresh(h, o.l, Arith(o.op, Val(h, o.l), Val(h, o.r)))
    [] o.t = "inpnum" -> Fresh(h, o.l, Arith(o.op, Val(h, o.l), Num(o.k)))
    [] o.t = "neg"    -> Fresh(h, o.dst, Neg(Val(h, o.l)))
    [] o.t = "abs"    -> Fresh(h, o.dst, Abs(Val(h, o.l)))
    [] o.t = "mut"    -> [h EXCEPT !.obj[h.name[o.l]] =
                              IF o.op = "to_positive" THEN ToPositive(@) ELSE Canon(Num(o.k))]
    [] OTHER -> h

\* what the harness can observe: the value behind every name, and which names share an object
Values(h)  == [n \in Names |-> Val(h, n)]
Shared(h)  == {<<m, n>> \in Names \X Names : m # n /\ h.name[m] = h.name[n]}
=============================================================================
