SPECIFICATION Spec
INVARIANT NeverBackwards
INVARIANT NoSkip
INVARIANT OnePeriodApart
INVARIANT WithinOnePeriod
CHECK_DEADLOCK FALSE
