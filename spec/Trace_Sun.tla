------------------------------ MODULE Trace_Sun ------------------------------
(***************************************************************************)
(* C14 conformance: seasons, equation of time, sunrise/sunset, and the     *)
(* general rise/transit/set routine.  All numbers Fix.                     *)
(*  "season": y, kq (0 spring .. 3 winter), oc, r = returned JDE, lon =    *)
(*            Sun.apparent_geocentric_position(r) longitude (deg); events  *)
(*            in (year, season) order; inr = 1 if -1000 <= y <= 3000       *)
(*  "eot":    t (JDE, consecutive days), m (int minutes), s (seconds),     *)
(*            y = civil year                                               *)
(*  "sun":    Epoch.rise_set: rise set (JDE), alt_r alt_s = altitude of    *)
(*            the Sun's centre at those instants from the library's own    *)
(*            apparent position, sidereal time and equatorial2horizontal,  *)
(*            hr hs = hour angles there (deg, +-180), h = observer height  *)
(*            amin amax = extreme altitudes of that day (on refusal)       *)
(*            (m), w = sqrt(h) witness                                     *)
(*  "rts":    times_rise_transit_set on a body moving linearly: returned   *)
(*            hours mr mt ms (isnone = 1 if None's), and at each returned  *)
(*            instant the hour angle H and declination D recomputed by the *)
(*            harness from the inputs (Hx Dx), with sin/cos witnesses;     *)
(*            sphi cphi sd2 cd2 sh0 = witnesses of latitude, delta2, h0    *)
(***************************************************************************)
EXTENDS TraceKit, Fix

Sq1(s, c) == Within(Add(Mul(s, s), Mul(c, c)), One, Dec(1, 12))

\* ---- seasons ---------------------------------------------------------------------
\* this event is the season right after the previous one (same year next season, or spring after winter)
Continues == st.k = "season" /\ ((st.y = Ev.y /\ st.kq + 1 = Ev.kq) \/ (st.y + 1 = Ev.y /\ st.kq = 3 /\ Ev.kq = 0))
VerdictSeason ==
  IF Ev.inr = 0 THEN Viol("SEASON_RANGE_REFUSED", Ev.oc = "ValueError")
  ELSE Viol("SEASON_TOTAL", Ev.oc = "ok")
  \cup (IF Ev.oc # "ok" THEN {} ELSE
        Viol("SEASON_LONGITUDE", WithinMod(Ev.lon, FromInt(90 * Ev.kq), 360, Dec(1, 5)))
   \cup (IF Continues /\ st.n >= 1
         THEN Viol("SEASON_ORDER_SPACING", LET d == Sub(Ev.r, st.last[1]) IN Ge(d, FromInt(88)) /\ Le(d, FromInt(95)))
         ELSE {})
   \cup (IF Continues /\ st.n >= 4          \* four events back = the same season of the previous year
         THEN Viol("SEASON_YEAR_LENGTH", LET d == Sub(Ev.r, st.last[4]) IN Ge(d, Dec(3652, 1)) /\ Le(d, Dec(3653, 1)))
         ELSE {}))

\* ---- equation of time ----------------------------------------------------------------
EotSec(ev) == LET mag == Add(FromInt(60 * (IF ev.m < 0 THEN -ev.m ELSE ev.m)), ev.s) IN IF ev.m < 0 THEN Neg(mag) ELSE mag
VerdictEot ==
  IF Ev.oc # "ok" THEN {"EOT_TOTAL"} ELSE
     Viol("EOT_FIELDS", Ge(Ev.s, Zero) /\ Lt(Ev.s, FromInt(60)))
\cup Viol("EOT_BOUND", Le(Abs(EotSec(Ev)), FromInt(IF Ev.y >= 1800 /\ Ev.y <= 2200 THEN 1050 ELSE 1500)))
\cup (IF st.k = "eot" /\ Within(Sub(Ev.t, st.t), One, Dec(1, 6)) /\ Ev.m # 0 /\ st.m # 0
      THEN Viol("EOT_DAILY_CHANGE", Lt(Abs(Sub(EotSec(Ev), st.e)), FromInt(45)))
      ELSE {})

\* ---- sunrise / sunset -------------------------------------------------------------------
VerdictSunRise ==
  LET dip == DivInt(Mul(Dec(2076, 3), Ev.w), 60)
      h0 == Sub(Neg(Dec(83, 2)), dip) IN
  IF Ev.oc # "ok"
  THEN \* a refusal is legitimate only on days the Sun does not cross the standard altitude at all
       \* (amin / amax = lowest / highest altitude of that day from the library's own positions)
       Viol("RISE_SET_TOTAL", Gt(Ev.amin, Sub(h0, One)) \/ Lt(Ev.amax, Add(h0, One)))
  ELSE
     Viol("WITNESS", Within(Mul(Ev.w, Ev.w), Ev.h, Add(Dec(1, 9), Mul(Dec(1, 12), Ev.h))))
\cup Viol("SUNRISE_ALTITUDE", Within(Ev.altr, h0, One))
\cup Viol("SUNSET_ALTITUDE", Within(Ev.alts, h0, One))
\cup Viol("RISE_TRANSIT_SET_ORDER", Lt(Ev.rise, Ev.set) /\ Lt(Sub(Ev.set, Ev.rise), One)
                                     /\ Lt(Ev.hr, Zero) /\ Gt(Ev.hs, Zero))

\* ---- general rise / transit / set ---------------------------------------------------------
SinAlt(sd, cd, cH, sphi, cphi) == Add(Mul(sphi, sd), Mul(Mul(cphi, cd), cH))
VerdictRts ==
  LET cosH0 == Mul(Sub(Ev.sh0, Mul(Ev.sphi, Ev.sd2)), Ev.icc)      \* icc = 1 / (cos phi cos delta2), verified below
      never == Gt(Abs(cosH0), One)
      \* grazing: the altitude hardly changes with the hour angle at the crossing:
      \* (cos phi cos delta sin H0)^2 = (cos phi cos delta)^2 (1 - cos^2 H0) < 0.03
      cc    == Mul(Ev.cphi, Ev.cd2)
      graze == Lt(Mul(Mul(cc, cc), Sub(One, Mul(cosH0, cosH0))), Dec(3, 2))
      tolS  == Dec(88, 6)                                           \* 0.005 degree of altitude, as a sine
  IN Viol("WITNESS", Sq1(Ev.sphi, Ev.cphi) /\ Sq1(Ev.sd2, Ev.cd2) /\ Within(Mul(Ev.icc, Mul(Ev.cphi, Ev.cd2)), One, Dec(1, 10)))
  \cup (IF Within(Abs(cosH0), One, Dec(1, 6)) THEN {}             \* exactly grazing: unspecified
        ELSE Viol("NO_TIMES_IFF_NEVER_CROSSES", (Ev.isnone = 1) <=> never))
  \cup (IF Ev.isnone = 1 \/ never \/ graze THEN {} ELSE
        Viol("WITNESS", Sq1(Ev.sDr, Ev.cDr) /\ Sq1(Ev.sDs, Ev.cDs) /\ Sq1(Ev.sHr, Ev.cHr) /\ Sq1(Ev.sHs, Ev.cHs))
   \cup Viol("RISE_AT_STANDARD_ALTITUDE", Within(SinAlt(Ev.sDr, Ev.cDr, Ev.cHr, Ev.sphi, Ev.cphi), Ev.sh0, tolS) /\ Lt(Ev.sHr, Zero))
   \cup Viol("SET_AT_STANDARD_ALTITUDE", Within(SinAlt(Ev.sDs, Ev.cDs, Ev.cHs, Ev.sphi, Ev.cphi), Ev.sh0, tolS) /\ Gt(Ev.sHs, Zero))
   \cup Viol("TRANSIT_ON_MERIDIAN", WithinMod(Ev.Ht, Zero, 360, Dec(5, 3))))

Verdict == CASE Ev.k = "season" -> VerdictSeason [] Ev.k = "eot" -> VerdictEot
             [] Ev.k = "sun" -> VerdictSunRise [] Ev.k = "rts" -> VerdictRts [] OTHER -> {"UNKNOWN_KIND"}

Blank == [k |-> "", y |-> 0, kq |-> 0, n |-> 0, last |-> <<Zero, Zero, Zero, Zero>>, t |-> Zero, e |-> Zero, m |-> 0]
Advance ==
  CASE Ev.k = "season" /\ Ev.oc = "ok" /\ Ev.inr = 1 ->
         [Blank EXCEPT !.k = "season", !.y = Ev.y, !.kq = Ev.kq,
                       !.n = IF Continues THEN (IF st.n >= 4 THEN 4 ELSE st.n + 1) ELSE 1,
                       !.last = IF Continues THEN <<Ev.r, st.last[1], st.last[2], st.last[3]>> ELSE <<Ev.r, Zero, Zero, Zero>>]
    [] Ev.k = "eot" /\ Ev.oc = "ok" -> [Blank EXCEPT !.k = "eot", !.t = Ev.t, !.e = EotSec(Ev), !.m = Ev.m]
    [] OTHER -> Blank
Init == TraceInit(Blank)
Next == StepWith(Verdict, Advance)
Spec == Init /\ [][Next]_<<l, st>>
=============================================================================
