SPECIFICATION Spec
CONSTANT Kind = "angle"
INVARIANT Canonical
INVARIANT Emit
PROPERTY ObjectsImmutable
PROPERTY OnlyDstRebound
CHECK_DEADLOCK FALSE
