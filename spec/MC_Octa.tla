------------------------------ MODULE MC_Octa ------------------------------
(* The rotation operators of Sphere.tla on the 26 lattice directions       *)
(* (components in {-1, 0, 1}, not all zero; un-normalised) and quarter     *)
(* turns: dot products are preserved, RotXInv undoes RotX, ToHorizon at    *)
(* latitude 90 is the identity and at latitude 0 maps the pole to the      *)
(* north point of the horizon (x = -1) and the meridian point on the       *)
(* equator (x = 1) to the zenith.                                          *)
EXTENDS Sphere, TLC
VARIABLES u, v, q
L == {-1, 0, 1}
Init == u \in (L \X L \X L) /\ v \in (L \X L \X L) /\ u # <<0, 0, 0>> /\ v # <<0, 0, 0>> /\ q \in 0..3
Next == UNCHANGED <<u, v, q>>
Spec == Init /\ [][Next]_<<u, v, q>>
F(w) == <<FromInt(w[1]), FromInt(w[2]), FromInt(w[3])>>
C == FromInt(CASE q = 0 -> 1 [] q = 1 -> 0 [] q = 2 -> -1 [] OTHER -> 0)
S == FromInt(CASE q = 0 -> 0 [] q = 1 -> 1 [] q = 2 -> 0 [] OTHER -> -1)
DotPreserved == Dot(RotX(F(u), C, S), RotX(F(v), C, S)) = Dot(F(u), F(v))
InverseUndoes == RotXInv(RotX(F(u), C, S), C, S) = F(u)
HorizonPreserves == Dot(ToHorizon(F(u), S, C), ToHorizon(F(v), S, C)) = Dot(F(u), F(v))
HorizonAnchors == /\ ToHorizon(F(u), One, Zero) = F(u)
                  /\ ToHorizon(F(<<0, 0, 1>>), Zero, One) = F(<<-1, 0, 0>>)
                  /\ ToHorizon(F(<<1, 0, 0>>), Zero, One) = F(<<0, 0, 1>>)
CrossOrthogonal == IsZero(Dot(Cross(F(u), F(v)), F(u))) /\ IsZero(Dot(Cross(F(u), F(v)), F(v)))
=============================================================================
