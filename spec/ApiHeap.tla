------------------------------- MODULE ApiHeap -------------------------------
(***************************************************************************)
(* C20: the library as a heap of caller-owned objects plus module-level    *)
(* state, and its API as a set of calls.  A call record carries digests    *)
(* (31-bit integers computed by the harness from the deep observable       *)
(* structure) of every argument object before and after the call, of all   *)
(* module-level tables/constants before and after, and of the result.      *)
(*                                                                         *)
(*   glob  digest of the module-level state, as last observed              *)
(*   memo  call signature (function + argument values) -> <<result digest, *)
(*         result shape, outcome>> of its first execution                  *)
(*                                                                         *)
(* Pure(c): the call changes nothing (documented mutators may change self, *)
(* which the harness then leaves out of the argument digests).             *)
(***************************************************************************)
EXTENDS Integers, Sequences, FiniteSets

Rejections == {"TypeError", "ValueError"}

ArgumentsUnchanged(c) == c.pre = c.post
GlobalsUnchanged(glob, c) == c.gpre = c.gpost /\ (glob = -1 \/ glob = c.gpre)
Outcome(c) == <<c.res, c.shape, c.oc>>
Deterministic(memo, c) == (c.clock = 0 /\ c.key \in DOMAIN memo) => memo[c.key] = Outcome(c)
Total(c) == c.cls = "well" => c.oc = "ok"
FiniteValue(c) == (c.cls = "well" /\ c.oc = "ok") => c.fin = 1
\* a one-argument perturbation of an in-domain call ("near") may leave the domain: it may be refused, but only cleanly
NearClean(c) == c.cls = "near" => (c.oc \in Rejections \/ c.oc = "ok")
RejectsCleanly(c) == c.cls = "ill" => (c.oc \in Rejections \/ (c.oc = "ok" /\ c.fin = 1))

Remember(memo, c) == IF c.key \in DOMAIN memo THEN memo
                     ELSE [k \in DOMAIN memo \cup {c.key} |-> IF k = c.key THEN Outcome(c) ELSE memo[k]]
=============================================================================
