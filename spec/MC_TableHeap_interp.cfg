SPECIFICATION Spec
CONSTANT Kind = "interp"
INVARIANT Emit
PROPERTY ObjectsImmutable
PROPERTY OnlyDstRebound
PROPERTY CopyIsFresh
PROPERTY QueriesArePure
CHECK_DEADLOCK FALSE
