SPECIFICATION Spec
INVARIANT SeamRecovered
INVARIANT RateDecision
CHECK_DEADLOCK FALSE
