#!/bin/sh
# re-vet every seeded change against /repo's current HEAD (a repair may have neutralised one): prints name + confirmed
cd /verif
for d in seeded/*/; do
  m=$(basename $d)
  [ -f seeded/$m/patch.diff ] || continue
  p=$(python3 -c "import json;print(json.load(open('/verif/seeded/$m/meta.json'))['breaks'])")
  rm -rf /tmp/rv_$m; mkdir -p /tmp/rv_$m; cp seeded/$m/patch.diff seeded/$m/demo.py /tmp/rv_$m/
  python3 -c "
import json;m=json.load(open('/verif/seeded/$m/meta.json'));open('/tmp/rv_$m/notes.md','w').write(m.get('needs',''))"
  old=$(python3 -c "import json;print(json.dumps(json.load(open('/verif/seeded/$m/meta.json')).get('detected_by')))")
  r=$(python3 tools/vet_seed.py $p /tmp/rv_$m $m 2>&1 | grep -E '"confirmed"|PATCH DOES NOT' | tr -d '\n')
  python3 - <<PY
import json
p='/verif/seeded/$m/meta.json'
m=json.load(open(p)); m['detected_by']=json.loads('''$old''') if m.get('detected_by') is None else m['detected_by']
json.dump(m,open(p,'w'),indent=1)
PY
  echo "$m $r"
  rm -rf /tmp/rv_$m
done
