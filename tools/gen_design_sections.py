#!/usr/bin/env python3
"""Regenerate the machine-derived sections of DESIGN.md: section 10 (findings, from KNOWN_FINDINGS.txt) and section 11
(seeded-change detection matrix, from seeded/*/meta.json).  Hand-written sections are left alone."""
import glob, json, os, re

ROOT = "/verif"


def sec10():
    kf = open(os.path.join(ROOT, "KNOWN_FINDINGS.txt")).read().splitlines()
    fixed = [l for l in kf if l.startswith("fixed:")]
    known = [l for l in kf if l.startswith("known:")]
    out = ["## 10. Findings on the real code\n",
           "All of these were first reported by a check on the unchanged tree, reproduced by hand against the real code with the\n"
           "failing input, and then either repaired (one minimal unguarded `fix:` commit each; the repository test suite, unedited,\n"
           "still passes - 250 passed and the one pre-existing failure, `test_is_phenomena`, until that failure itself was traced to a\n"
           "defect and repaired: 251 passed since - and the module doctests pass as they did at the pinned commit) or\n"
           "recorded in `KNOWN_FINDINGS.txt`. The checks print one `KNOWN-FINDING:` line per listed finding and still exit 1 for any\n"
           "violation the predicates do not cover; `fixed:` entries suppress nothing. `property=GROWTH` marks defects outside the\n"
           "twenty listed properties, found by the growth suite (section 12).\n",
           "### 10.1 Repaired (%d `fix:` commits in /repo; a commit that repaired two properties is listed twice)\n"
           % len({l.split()[2] for l in fixed}),
           "| property | commit | what failed |", "|---|---|---|"]
    for l in fixed:
        m = re.match(r"fixed: property=(\S+) (\S+) (.*)", l)
        out.append("| %s | `%s` | %s |" % (m.group(1), m.group(2), m.group(3).replace("|", "\\|")))
    out.append("")
    out.append("### 10.2 Known findings (%d predicates; genuine defects not repaired)\n" % len(known))
    out.append("Not repaired because the repair is not small and safe: the event finders would need a different search window or\n"
               "iteration (C13, C15, C12 tangent roots, C20 Saturn), the repository's own tests pin the defective values (C08, C09\n"
               "outer-planet elongation), the behaviour is a limitation of Meeus' low-accuracy formulae that the property's stated\n"
               "bound nevertheless excludes (C16, C18, C05 near the pole), or the right behaviour needs a design decision (C10 last\n"
               "minute of a leap-second day, C17 degeneracy thresholds, C19 `gregorian2moslem` on the 306 listed dates).\n")
    out.append("| property | clause | site | input class | what fails |")
    out.append("|---|---|---|---|---|")
    for l in known:
        m = re.match(r"known: property=(\S+) clause=(\S+) site=(\S+) match=(.*?) -- (.*)", l)
        if not m:
            out.append("| ? | | | | %s |" % l[:200])
            continue
        t = m.group(5)
        if len(t) > 260:
            t = t[:257] + "..."
        out.append("| %s | `%s` | `%s` | `%s` | %s |" % (m.group(1), m.group(2), m.group(3), m.group(4).replace("|", "\\|"), t.replace("|", "\\|")))
    out.append("")
    return "\n".join(out) + "\n"


def sec11():
    rows = []
    n = det = own = 0
    for mp in sorted(glob.glob(os.path.join(ROOT, "seeded", "*", "meta.json"))):
        m = json.load(open(mp))
        n += 1
        first = (m.get("needs") or "").strip().splitlines()[0].lstrip("# ").strip() if m.get("needs") else ""
        first = re.sub(r"^(C\d\d\w*\s*/\s*)?(mutation|m)\s*\d\s*[-:—]*\s*", "", first, flags=re.I)
        db = m.get("detected_by") or {}
        cells = []
        for c, r in sorted(db.items(), key=lambda kv: (kv[0] != m["breaks"], kv[0])):
            if "clauses" in r:
                cl = sorted(r["clauses"].items(), key=lambda kv: -kv[1])
                cells.append("%s %s: %s" % (c, r["tier"], ", ".join("`%s`" % k for k, _ in cl[:3]) + (" ..." if len(cl) > 3 else "")))
        if cells:
            det += 1
        if m["breaks"] in db and "clauses" in db[m["breaks"]]:
            own += 1
        rows.append("| `%s` | %s | %s |" % (m["name"], first[:150].replace("|", "/"), "; ".join(cells) if cells else "**not detected**"))
    dropped = ""
    dp = os.path.join(ROOT, "seeded", "DROPPED.txt")
    if os.path.exists(dp):
        dropped = "\nDropped (no longer property-breaking after a repair):\n\n" + "".join("* " + l for l in open(dp) if l.strip()) + "\n"
    head = ["## 11. Seeded changes and which checks catch them\n",
            "%d property-breaking changes are kept under `seeded/<name>/` (`patch.diff`, `demo.py`, `meta.json`). Each was written by a\n"
            "fresh sub-agent that saw only the text of one property and its own scratch worktree (`tools/mutation_agent_prompt.txt`;\n"
            "seven rounds (for the sixth and seventh only the owning check was run, quick tier: `tools/try_round_par.sh`); later rounds were told which sites the earlier ones had used and, from round 4 on, to hide behind rare\n"
            "input combinations, tolerance margins and era effects), passes the repository's test suite, and was confirmed by\n"
            "hand in a scratch worktree at the current /repo HEAD (`tools/revet_all.sh`: demo exits 1 with the change, 0 without).\n"
            "`tools/matrix.py` applies each in a scratch worktree, runs the owning check (quick, then thorough) against it through\n"
            "`VERIF_REPO`, falls back to the other checks when the owner is silent, and records the clauses whose count rose above the\n"
            "unchanged tree's. **%d of %d are detected, %d of them by the check of the property they were written against**; the\n"
            "others are history-dependent caches that only the C20 history clauses can see (their own property statement does not\n"
            "mention call histories). `thorough` in the last column means the quick tier was silent (rare-input changes of round 4:\n"
            "one aphelion of year 3731, eight full moons of the 20th century BC, ...). Checks strengthened because a seeded change\n"
            "first escaped them are listed in section 7.\n"
            % (n, det, n, own),
            "| change | what it does | detected by (check tier: clauses above baseline) |", "|---|---|---|"]
    return "\n".join(head + rows) + "\n" + dropped


def main():
    p = os.path.join(ROOT, "DESIGN.md")
    s = open(p).read()
    a = s.index("## 10. Findings on the real code")
    b = s.index("<!-- SECTION11 -->")
    s = s[:a] + sec10() + "\n" + s[b:]
    m0 = "<!-- SECTION11 -->"
    m1 = "<!-- /SECTION11 -->"
    if m1 in s:
        s = s[:s.index(m0)] + m0 + "\n\n" + sec11() + "\n" + s[s.index(m1):]
    else:
        s = s.replace(m0, m0 + "\n\n" + sec11() + "\n" + m1, 1)
    open(p, "w").write(s)
    print("DESIGN.md sections 10 and 11 regenerated")


if __name__ == "__main__":
    main()
