#!/bin/sh
# usage: tools/soak.sh <id> <seed0> <seed1> [tier] : run a check with several seeds, report non-zero exits
ID=$1; A=$2; B=$3; T=${4:-quick}
for s in $(seq $A $B); do
  out=$(VERIF_SEED=$s ./check $ID $T 2>&1); rc=$?
  echo "$ID seed=$s rc=$rc $(echo "$out" | grep -E '^\[' | tail -1)"
  if [ $rc -ne 0 ]; then echo "$out" | grep -E "VIOLATION|MACHINERY" | head -5; fi
done
