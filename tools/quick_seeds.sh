#!/bin/sh
# usage: tools/quick_seeds.sh [seeds...] : every registered check's quick tier at the given seeds (default 0 1 2), one line each
cd /verif
for s in ${@:-0 1 2}; do
  for id in C01 C02 C03 C04 C05 C06 C07 C08 C09 C10 C11 C12 C13 C14 C15 C16 C17 C18 C19 C20 GROWTH; do
    out=$(VERIF_SEED=$s ./check $id quick 2>&1); rc=$?
    echo "$id quick seed=$s rc=$rc $(echo "$out" | grep -E '^\[' | tail -1)"
    [ $rc -ne 0 ] && echo "$out" | grep -E "VIOLATION|MACHINERY" | head -5
  done
done
