#!/bin/sh
# usage: tools/try_round_par.sh <round-suffix, e.g. r6> [tier] [parallel] : like try_round.sh but several seeded changes at a time,
# each in its own scratch worktree and its own run directory (VERIF_RUNDIR); one summary line each in work/try_<suffix>_<tier>.log
R=$1; T=${2:-quick}; P=${3:-4}
cd /verif
ls -d seeded/*_${R}m* | xargs -P $P -I{} sh -c '
  d={}; n=$(basename $d); id=$(echo $n | cut -c1-3); WT=/tmp/try_$n
  git -C /repo worktree add --detach $WT HEAD -q && git -C $WT apply /verif/$d/patch.diff &&
  out=$(VERIF_JOBS=5 VERIF_RUNDIR=/verif/work/try_$n VERIF_REPO=$WT ./check $id '$T' 2>&1 | grep -v "^KNOWN" | grep -E "VIOLATION|^\[" | cut -c1-200 | head -4 | tr "\n" " ")
  git -C /repo worktree remove --force $WT; rm -rf /verif/work/try_$n
  echo "$n '$T': $out"' | tee work/try_${R}_${T}.log
