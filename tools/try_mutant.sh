#!/bin/sh
# usage: tools/try_mutant.sh <patch.diff> <property-id> [tier]   -- apply to /repo, run check, always revert
P="$1"; ID="$2"; T="${3:-quick}"
cd /repo || exit 2
if ! git diff --quiet; then echo "repo dirty"; exit 2; fi
git apply "$P" || { echo "patch does not apply"; exit 3; }
cd /verif && ./check "$ID" "$T" 2>&1 | tail -12
rc=$?
git -C /repo checkout -- .
git -C /repo status --short | head -3
exit 0
