#!/bin/sh
# usage: tools/try_mutant.sh <patch.diff> <property-id> [tier] [shard-name regex]
# apply the change in a scratch worktree of /repo's HEAD (never in /repo), run the check against it, remove the worktree
P="$1"; ID="$2"; T="${3:-quick}"; ONLY="$4"
WT=/tmp/try_mutant_$$
git -C /repo worktree add --detach $WT HEAD -q || exit 2
git -C $WT apply "$P" || { echo "patch does not apply"; git -C /repo worktree remove --force $WT; exit 3; }
cd /verif && VERIF_ONLY="$ONLY" VERIF_REPO=$WT ./check "$ID" "$T" 2>&1 | tail -12
git -C /repo worktree remove --force $WT
exit 0
