#!/bin/sh
# usage: tools/vet_round.sh <round-tag, e.g. R2> : vet every finished /tmp/mut/out/<tag>_<id>/m<i> that is not yet under seeded/
T=$1
for d in /tmp/mut/out/${T}_C*/m*; do
  [ -f $d/patch.diff ] && [ -f $d/demo.py ] || continue
  id=$(basename $(dirname $d) | sed "s/${T}_//"); i=$(basename $d)
  lower=$(echo $T | tr 'A-Z' 'a-z')
  name=${id}_${lower}${i}
  [ -d seeded/$name ] && continue
  [ -f /tmp/mut/out/${T}_${id}/.rejected_$i ] && continue
  r=$(python3 tools/vet_seed.py $id $d $name 2>&1 | grep -E '"confirmed"|PATCH DOES NOT')
  echo "$name $r"
  case "$r" in *true*) ;; *) touch /tmp/mut/out/${T}_${id}/.rejected_$i;; esac
done
