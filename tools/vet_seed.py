#!/usr/bin/env python3
"""Vet a sub-agent mutation in a scratch worktree and file it under /verif/seeded/<name>/.
usage: vet_seed.py <property> <src_dir> <name>
Confirms: patch applies to current /repo HEAD; test suite result unchanged (250 pass, 1 known failure);
demo fails with the patch and passes without it."""
import json, os, re, shutil, subprocess, sys, time

def sh(cmd, cwd=None, timeout=1800):
    p = subprocess.run(cmd, shell=True, cwd=cwd, stdout=subprocess.PIPE, stderr=subprocess.STDOUT, timeout=timeout)
    return p.returncode, p.stdout.decode("utf-8", "replace")

def main():
    prop, src, name = sys.argv[1:4]
    wt = "/tmp/vet_%s" % name
    sh("git -C /repo worktree remove --force %s" % wt)
    rc, out = sh("git -C /repo worktree add --detach %s HEAD -q" % wt)
    res = dict(property=prop, name=name, source="independent sub-agent given only the property text", vetted_at_repo_head=
               sh("git -C /repo rev-parse --short HEAD")[1].strip())
    try:
        shutil.copy(os.path.join(src, "demo.py"), os.path.join(wt, "_demo.py"))
        rc0, o0 = sh("/venv/bin/python -B _demo.py", cwd=wt)
        res["demo_pristine_rc"] = rc0
        rc, out = sh("git apply %s" % os.path.join(src, "patch.diff"), cwd=wt)
        res["applies"] = (rc == 0)
        if rc != 0:
            print("PATCH DOES NOT APPLY:", out[:500]); res["note"] = out[:300]
        else:
            rc, out = sh("/venv/bin/python -m pytest -q -p no:cacheprovider -x --deselect tests/test_jupiterMoons.py::TestJupiterMoons::test_is_phenomena 2>&1 | tail -3", cwd=wt)
            res["tests"] = out.strip().splitlines()[-1] if out.strip() else ""
            rc1, o1 = sh("/venv/bin/python -B _demo.py", cwd=wt)
            res["demo_mutated_rc"] = rc1
            res["demo_mutated_tail"] = o1.strip()[-400:]
        ok = res.get("applies") and rc0 == 0 and res.get("demo_mutated_rc") == 1 and " passed" in res.get("tests", "") and "failed" not in res.get("tests", "")
        res["confirmed"] = bool(ok)
        print(json.dumps(res, indent=1))
        if ok:
            dst = "/verif/seeded/%s" % name
            os.makedirs(dst, exist_ok=True)
            shutil.copy(os.path.join(src, "patch.diff"), dst)
            shutil.copy(os.path.join(src, "demo.py"), dst)
            notes = open(os.path.join(src, "notes.md")).read() if os.path.exists(os.path.join(src, "notes.md")) else ""
            meta = dict(res, breaks=prop, needs=notes,
                        ran=["git apply patch.diff (scratch worktree of /repo HEAD)",
                             "/venv/bin/python -m pytest -q -p no:cacheprovider (250 passed, same single known failure deselected)",
                             "/venv/bin/python demo.py with the patch -> exit 1; without -> exit 0"],
                        detected_by=None)
            json.dump(meta, open(os.path.join(dst, "meta.json"), "w"), indent=1)
    finally:
        sh("git -C /repo worktree remove --force %s" % wt)
    return 0

if __name__ == "__main__":
    sys.exit(main())
