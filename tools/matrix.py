#!/usr/bin/env python3
"""Run the registered checks against every seeded change and record which check/clauses catch it.
usage: tools/matrix.py [name-prefix ...] [--all-checks] [--redo]
For each /verif/seeded/<name>: apply patch.diff in a scratch worktree of /repo's HEAD (outside /repo and /verif, removed at
the end), run `VERIF_REPO=<worktree> ./check <breaks> quick` (thorough if quick misses it), undo; writes detected_by into
meta.json and regenerates seeded/MATRIX.md.  /repo itself is never touched; evidence/ and replays/ are not written."""
import glob, json, os, re, subprocess, sys

ROOT = "/verif"


def sh(cmd, timeout=7200):
    p = subprocess.run(cmd, shell=True, cwd=ROOT, stdout=subprocess.PIPE, stderr=subprocess.STDOUT, timeout=timeout)
    return p.returncode, p.stdout.decode("utf-8", "replace")


WT = "/tmp/matrix_wt_%d" % os.getpid()


WT0 = WT + "_clean"


def run_check(pid, tier, wt=None):
    rc, out = sh("VERIF_REPO=%s ./check %s %s" % (wt or WT, pid, tier))
    m = re.search(r"clause counts: (\{.*\})", out)
    counts = eval(m.group(1)) if m else {}
    mach = [l for l in out.splitlines() if "MACHINERY" in l][:2]
    return rc, counts, mach


_BASE = {}


def baseline(pid, tier):
    """clause counts of the unchanged tree (known findings included): subtracted from every mutant run"""
    if (pid, tier) not in _BASE:
        rc, counts, mach = run_check(pid, tier, WT0)
        if rc != 0:
            print("WARNING: %s %s is not clean on the unchanged tree (rc=%d)" % (pid, tier, rc), flush=True)
        _BASE[(pid, tier)] = counts
    return _BASE[(pid, tier)]


def delta(counts, base):
    return {c: n - base.get(c, 0) for c, n in counts.items() if n - base.get(c, 0) > 0}


def main():
    args = [a for a in sys.argv[1:] if not a.startswith("--")]
    allchecks = "--all-checks" in sys.argv
    redo = "--redo" in sys.argv
    sh("git -C /repo worktree remove --force %s" % WT)
    rc, out = sh("git -C /repo worktree add --detach %s HEAD -q" % WT)
    if rc != 0:
        print("cannot create scratch worktree: " + out)
        return 2
    head = sh("git -C /repo rev-parse --short HEAD")[1].strip()
    sh("git -C /repo worktree remove --force %s" % WT0)
    sh("git -C /repo worktree add --detach %s HEAD -q" % WT0)
    ids = [json.loads(l)["id"] for l in open(os.path.join(ROOT, "properties.jsonl"))]
    for d in sorted(glob.glob(os.path.join(ROOT, "seeded", "*"))):
        name = os.path.basename(d)
        mp = os.path.join(d, "meta.json")
        if not os.path.exists(mp) or (args and not any(name.startswith(a) for a in args)):
            continue
        meta = json.load(open(mp))
        if meta.get("detected_by") and not redo:
            continue
        rc, out = sh("git -C %s apply %s" % (WT, os.path.join(d, "patch.diff")))
        if rc != 0:
            print(name, "PATCH DOES NOT APPLY", out[:200])
            meta["detected_by"] = None
            meta["matrix_note"] = "patch no longer applies at %s" % head
            json.dump(meta, open(mp, "w"), indent=1)
            continue
        try:
            res = {}
            pid = meta["breaks"]
            todo = [pid] + ([i for i in ids if i != pid] if allchecks else [])
            def attempt(c, tiers):
                for tier in tiers:
                    rc, counts, mach = run_check(c, tier)
                    d = delta(counts, baseline(c, tier))
                    print(name, c, tier, "rc=%d" % rc, d, flush=True)
                    if rc == 1:
                        res[c] = dict(tier=tier, clauses=d)
                        return True
                    if rc != 0:
                        res[c] = dict(tier=tier, machinery_error=mach)
                        return False
                return False
            found = attempt(pid, ["quick", "thorough"])
            others = [i for i in ids if i != pid] if allchecks else ([] if found else ["C20"] + [i for i in ids if i not in (pid, "C20")])
            for c in others:
                if attempt(c, ["quick"]) and not allchecks:
                    break
            old = meta.get("detected_by") or {}
            if isinstance(old, dict) and not redo:
                old.update(res)
                res = old
            meta["detected_by"] = res or None
            meta["matrix_repo_head"] = head
            json.dump(meta, open(mp, "w"), indent=1)
        finally:
            sh("git -C %s checkout -- ." % WT)
    sh("git -C /repo worktree remove --force %s" % WT)
    sh("git -C /repo worktree remove --force %s" % WT0)
    sh("rm -rf /verif/work/mut_*")
    write_md()
    return 0


def write_md():
    rows = []
    for mp in sorted(glob.glob(os.path.join(ROOT, "seeded", "*", "meta.json"))):
        m = json.load(open(mp))
        first = (m.get("needs") or "").strip().splitlines()[0].lstrip("# ").strip() if m.get("needs") else ""
        db = m.get("detected_by") or {}
        cells = []
        for c, r in sorted(db.items()):
            if "clauses" in r:
                cl = sorted(r["clauses"].items(), key=lambda kv: -kv[1])
                cells.append("**%s** %s: %s" % (c, r["tier"], ", ".join("%s x%d" % kv for kv in cl[:4]) + (" ..." if len(cl) > 4 else "")))
            else:
                cells.append("%s: machinery error" % c)
        rows.append("| `%s` | %s | %s | %s |" % (m["name"], m["breaks"], first.replace("|", "/"), "<br>".join(cells) if cells else "**NOT DETECTED**"))
    w = ["# Seeded changes x checks", "",
         "Every change below was written by an independent sub-agent that saw only the property text and a scratch worktree, "
         "passes the repository's 250 tests, and was confirmed by hand (`demo.py` fails with it, passes without). "
         "`tools/matrix.py` applies each to /repo, runs the owning check (quick, then thorough if quick is silent) and undoes it. "
         "Clause names are those of the trace specification that rejected the trace; the count is the number of rejected events.", "",
         "| change | property | what it does | detected by |", "|---|---|---|---|"] + rows
    open(os.path.join(ROOT, "seeded", "MATRIX.md"), "w").write("\n".join(w) + "\n")


if __name__ == "__main__":
    sys.exit(main())
