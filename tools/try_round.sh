#!/bin/sh
# usage: tools/try_round.sh <round-suffix, e.g. r5> [tier] : run the owning check (default quick) against every seeded/<id>_<suffix>m<i>
# in a scratch worktree and print one summary line each (development aid; tools/matrix.py records the results)
R=$1; T=${2:-quick}
cd /verif
for d in seeded/*_${R}m*; do
  n=$(basename $d); id=$(echo $n | cut -c1-3)
  out=$(tools/try_mutant.sh /verif/$d/patch.diff $id $T 2>&1 | grep -v "^KNOWN" | tail -1 | cut -c1-260)
  echo "$n $T: $out"
done
