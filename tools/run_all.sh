#!/bin/sh
# usage: tools/run_all.sh <tier> [ids...] : run the registered checks one after the other, one summary line each
T=$1; shift
IDS=${@:-C01 C02 C03 C04 C05 C06 C07 C08 C09 C10 C11 C12 C13 C14 C15 C16 C17 C18 C19 C20}
cd /verif
for id in $IDS; do
  s=$(date +%s)
  out=$(./check $id $T 2>&1); rc=$?
  e=$(( $(date +%s) - s ))
  echo "$id $T rc=$rc ${e}s $(echo "$out" | grep -E '^\[' | tail -1)"
  if [ $rc -ne 0 ]; then echo "$out" | grep -E "VIOLATION|MACHINERY" | head -6; fi
done
