#!/usr/bin/env python3
"""Regenerates /verif/MANIFEST.json from the table below (claimed checks) -
every property not claimed is listed under not_applicable with its reason."""
import json, os, sys
sys.path.insert(0, "/verif/harness")
V = "/verif"
ALL = ["C%02d" % i for i in range(1, 21)]

CLAIMS = {
 "C01": dict(
   text="TLC exhaustively walks the civil-calendar successor relation with an independent day counter "
        "(quick: ~1,300 years in windows incl. both ends, the reform, century years; thorough: all 3.9 M days "
        "-4712..6000) and checks the Meeus date->JD and JD->date recipes, month-length refusal and anchors as "
        "invariants; the real Epoch class is then driven over every civil day of the same windows (month as "
        "number/short/long name, read-back, day+1, day 0) and TLC validates each recorded event against the chain. Apalache additionally proves an inductive invariant of the same chain (civil date, day-of-year formula, closed-form day number, weekday; thorough: also Meeus 7.1 as coded) for every year >= -4712.",
   note="Trusted: TLC, the ~60-line calendar successor relation in spec/Calendar.tla (cross-checked against a "
        "closed-form Jan-1 day number and an independent Gregorian weekday formula), JSON transport of ints.",
   technique="TLA+ calendar chain model-checked by TLC (+ inductive invariant by Apalache) + trace validation of Epoch calls per civil day",
   ref="5/C01"),
 "C16": dict(
   text="Same chain as C01 carrying weekday and day-of-year counters (model-checked: dow=(jdn+1) mod 7, equals the "
        "proleptic Gregorian weekday after 1582, year lengths, Meeus day-of-year formula); dow() at three instants, "
        "doy(), get_doy, doy2date, leap(), year() of every civil day in the windows are validated by TLC against the "
        "chain; sidereal time is validated against the IAU-1982 polynomial evaluated in the spec in exact fixed point. "
        "Apalache proves the chain's inductive invariant (and, thorough, the Gregorian weekday formula, leap rule and year "
        "length as its consequences) for every year >= -4712.",
   note="Trusted: TLC, Calendar.tla, Fix.tla (self-tested against Python Fractions at setup), float->Fix "
        "representational conversion.",
   technique="TLA+ calendar chain + exact fixed-point IAU-1982 polynomial in the spec; trace validation by TLC",
   ref="5/C16"),
 "C19": dict(
   text="TLC model-checks the reference calendars over their whole finite domains: the tabular-epact Easter definition "
        "against the Meeus recipe for every year -4712..10000 (Sunday, 22 March..25 April), the arithmetic Hebrew calendar "
        "(molad, four dehiyyot, year lengths, Pesach = Rosh Hashanah - 163) for years 1..3000 and the Islamic day chain AH "
        "1..2500 against closed forms and published anchors; Apalache proves the Islamic closed form by induction for every "
        "year, and that tabular Easter is a Sunday within 22 March..25 April for every year. Every value the implementation returns (easter: all 14,713 "
        "years; pesach: all 3,000; moslem2gregorian/gregorian2moslem: every day of the windows, thorough: all ~1.75 M days) "
        "is validated by TLC against those definitions, the Moslem conversions as day chains.",
   note="Trusted: TLC; Computus.tla (Knuth's tabular Easter, Dershowitz-Reingold Hebrew elapsed days, 30-year Islamic cycle), "
        "anchored on published dates checked as invariants; Calendar.tla for civil dates.",
   technique="TLA+ reference calendars model-checked exhaustively by TLC + trace validation of every returned date",
   ref="5/C19"),
 "C10": dict(
   text="The IERS leap-second history is a constant of the specification; TLC checks it (and the lookup transcription) "
        "for every (year, month) 1950..2100, and validates against it, in exact fixed-point arithmetic, the offset between "
        "Epoch(..., utc=True) and Epoch(...) for every month x 3 days x 3-26 times of day, the utc read-back (1 ms), every "
        "leap_seconds override 0..60 in both directions, leap_seconds(y, m) itself, and Delta-T for every month -2000..3000.",
   note="Trusted: TLC; the 27-entry IERS list typed into LeapSeconds.tla (cross-checked by anchors TT-UTC = 42.184 s in "
        "1972-01, 64.184 s in 2000, 69.184 s in 2017); Fix.tla; float->Fix conversion.",
   technique="TLA+ IERS step function model-checked by TLC + trace validation with exact fixed-point offsets",
   ref="5/C10"),
 "C04": dict(
   text="The print law (no 60 in minutes/seconds, sign once on the leading non-zero field, read-back within half a unit of "
        "the last decimal modulo 360/24, canonical tuple recombining to 1e-9 degree) is a TLA+ predicate over the printed "
        "fields; TLC model-checks an integer carry model of dms_str against it on all carry windows (Apalache: for every value "
        "below one turn, symbolically) and then judges, in exact "
        "fixed point, every string and tuple the real Angle produces for the same grid and for seeded boundary-focused "
        "values (1e-12 / 1-3 ulp / half-unit neighbours of whole seconds, minutes, degrees, hours, 0, +-360, denormals) and "
        "sub-degree values 1.5e-11 arcsec either side of rounding ties, judged to 7e-12 arcsec (single rounding).",
   note="Trusted: TLC, Fix.tla, the ~30-line regex tokeniser that splits the printed string into its numeric fields as text "
        "(decimal text -> exact rational), float->Fix conversion.",
   technique="TLA+ print-law predicate; carry model model-checked by TLC; trace validation of real strings/tuples",
   ref="5/C04"),
 "C03": dict(
   text="AngleADT.tla specifies every constructor and operator as Reduce(exact real result); ObjHeap.tla specifies the object "
        "heap (operators allocate, in-place forms rebind, only documented mutators write). TLC model-checks the value laws on a "
        "dyadic grid and the frame laws on all operation sequences of depth 2, emits those behaviours (and -simulate ones of "
        "depth 6-8), the harness executes them on real Angle objects and TLC validates every step; constructor/operator events "
        "from seeded boundary inputs are judged by TLC with exact fixed-point results.",
   note="Trusted: TLC, Fix.tla, harness quotient/floor witnesses (verified by the spec before use), 50-digit pi for radian inputs.",
   technique="TLA+ ADT + heap model; TLC-generated behaviours replayed on real objects; trace validation",
   ref="5/C03"),
 "C02": dict(
   text="The abstract value of an Epoch is an instant in days; TLC recomposes every date/time tuple the implementation returns "
        "on the model-checked calendar chain (exact fixed point) and requires canonical field ranges, 1e-8-day round trips, a "
        "non-decreasing date tuple along each sorted JDE sweep (action property over consecutive events), agreement of all "
        "documented input forms to 1e-9 day, the translation laws of +/-/+=/-=/reflected + and the order laws of the six "
        "comparisons; TLC-generated heap behaviours (ObjHeap, kind epoch) are replayed on real Epoch objects step by step.",
   note="Trusted: TLC, Calendar.tla/Computus.tla JDNOf (model-checked against the chain), Fix.tla, float->Fix conversion.",
   technique="TLA+ Epoch ADT over the calendar chain; trace validation of sorted sweeps; TLC behaviours replayed on real objects",
   ref="5/C02"),
 "C17": dict(
   text="The least-squares solution is specified by its normal equations; TLC proves the Cramer formulas against them on every "
        "small integer data set and replays all of those through the real class; for seeded 2-200-point data on a 1/4 grid TLC "
        "recomputes sums and determinants exactly in fixed point and judges the returned coefficients cross-multiplied "
        "(1e-6), degenerate data must raise ZeroDivisionError, correlation satisfies r^2 Dx Dy = Nxy^2 with the right sign "
        "and range, general_fitting reproduces the quadratic/linear fit and leaves residuals orthogonal to free bases "
        "(incl. a basis function that is tiny on the table, judged on column-normalised conditioning).",
   note="Trusted: TLC, Fix.tla, math.sin/cos/exp used only to tabulate witness basis values for the free-basis orthogonality clause.",
   technique="TLA+ normal-equation spec model-checked on small data sets + trace validation with exact fixed-point sums",
   ref="5/C17"),
 "C12": dict(
   text="Interp.tla specifies the table (ascending, same points), the unique interpolant (Newton form in exact fixed point), the "
        "generating polynomial as oracle for value/derivative, and the effective search interval of root/minmax (limits ordered "
        "and clipped to the table, model-checked against the clamping code on a grid). TLC judges every constructor, evaluation, "
        "refusal and root/extremum call recorded from real Interpolation objects: the returned abscissa must lie in the clipped "
        "interval and the exact polynomial (or its derivative) must vanish there to the object's tolerance whenever it changes sign.",
   note="Trusted: TLC, Fix.tla; abscissae on a quarter grid so divided differences are exact integer divisions.",
   technique="TLA+ interpolation spec with exact polynomial oracle; interval law model-checked; trace validation",
   ref="5/C12"),
 "C13": dict(
   text="Finders.tla specifies the event-finder protocol (never backwards, consecutive distinct results one period apart within "
        "the natural variation so that no event is skipped, result within one period of the query, range refusal) with the "
        "mean periods as constants; an abstract nearest-event finder is model-checked against it; every one of the 56 finder "
        "variants is swept with sorted queries at 1/20-period steps over windows across -2000..4000 and TLC evaluates the "
        "protocol as an action property over consecutive events; for sampled events TLC checks on the library's own VSOP87 "
        "positions at r, r+-tol, r+-2tol that the defining sign change/extremum happens there, and (sharp form) that the slope of "
        "the extremal quantity changes sign between r-tol and r+tol; whole windows in which EVERY event is asked for and judged "
        "(thorough: every event of every finder over -2000..4000).",
   note="Trusted: TLC, Fix.tla, period constants from Meeus' tables, the harness wiring of the library's own positions "
        "(geocentric_position, Sun.apparent_geocentric_position, equatorial2ecliptical) into the five-point stencils.",
   technique="TLA+ finder protocol (action property over sorted query traces) + event-reality stencils judged by TLC",
   ref="5/C13"),
 "C15": dict(
   text="Trace_Moon.tla validates daily lunar positions (range invariants, parallax identity, illuminated fraction against the "
        "Sun-Earth-Moon triangle computed by TLC from witnesses it verifies, daily motion and secular node/perigee rates as "
        "action properties over consecutive events) and the four lunar finders with the finder protocol of Finders.tla (never "
        "backwards, one month apart, within 1.6 months, total on every calendar day of sample years in both calendars) plus "
        "event reality on the library's own positions (phase longitude 0.06 deg; distance / declination slope changes sign within "
        "+-0.25 d; latitude 0.02 deg), for sampled events and for EVERY event of whole windows (thorough: all of -2000..-1400).",
   note="Trusted: TLC, Fix.tla, math.sin/cos/sqrt for witnesses (unit norm and square verified by the spec), wiring of "
        "Moon.apparent_ecliptical_pos / Sun.apparent_geocentric_position into the checks.",
   technique="TLA+ orbit invariants + finder protocol as action properties; trace validation with verified witnesses",
   ref="5/C15"),
 "C14": dict(
   text="Trace_Sun.tla judges: every season instant against the library's own apparent solar longitude (1e-5 deg), season order, "
        "spacing and year length as action properties over the (year, season) sequence, range refusal; the equation of time "
        "bound and daily change over consecutive days; sunrise/sunset altitudes and hour-angle signs computed from the library's "
        "own position/sidereal time; and the general rise/transit/set routine through the altitude identity on verified "
        "sine/cosine witnesses, meridian condition at transit and the None-iff-never-crosses law.",
   note="Trusted: TLC, Fix.tla, math.sin/cos/sqrt witnesses (norms and squares verified in the spec), the harness wiring of "
        "Sun.apparent_geocentric_position, true_obliquity, apparent_sidereal_time and equatorial2horizontal.",
   technique="TLA+ trace specification with action properties over ordered seasons/days; verified trigonometric witnesses",
   ref="5/C14"),
 "C07": dict(
   text="Orbit.tla holds the mean-orbit constants of the eight planets and the trajectory laws (longitude range, latitude vs "
        "inclination, radius between perihelion and aphelion, longitude strictly increasing at a rate within 3% of the "
        "Keplerian extremes, evaluated without roots); TLC checks the seam/rate algebra on a grid and validates time-ordered "
        "VSOP87 position traces of every planet (sparse, daily and 1-second steps) with the rate law as an action property, the "
        "two-body comparison on verified unit vectors, the FK5/aberration/nutation relations, the series-vs-table mean rate and "
        "Kepler's third law; the direct re-summation clause is a harness oracle whose comparison is done by the spec.",
   note="Trusted: TLC, Fix.tla, Table 31.A literals typed into Orbit.tla, math.sin/cos for unit vectors (norm verified), the "
        "~15-line two-body wiring (library elements + library kepler_equation), math.fsum for the direct summation.",
   technique="TLA+ orbit laws as invariants/action properties over time-ordered traces; verified witnesses; one harness-oracle clause",
   ref="5/C07"),
 "C11": dict(
   text="Kepler.tla states Kepler's equation, the half-revolution law and the true-anomaly relation as polynomial identities over "
        "sine/cosine/square-root witnesses that the spec verifies (s^2+c^2 = 1, w^2(1-e) = 1+e), plus vis-viva, orbit-length "
        "bounds, phase-angle/illuminated-fraction and node-passage relations; Sinnott's bisection is model-checked on an abstract "
        "monotone function for every root position; TLC judges every recorded call in exact fixed point.",
   note="Trusted: TLC, Fix.tla, IEEE math.sin/cos/sqrt for the witnesses (constrained by the identities checked in the spec).",
   technique="TLA+ polynomial identities over verified transcendental witnesses; bisection model-checked; trace validation",
   ref="5/C11"),
 "C18": dict(
   text="Trace_Ellipsoid.tla states the meridian-ellipse identity, height term, parallel radius, curvature end values and "
        "monotonicity, linear speed, and the distance laws (symmetry, zero, equator, meridian integral, great-circle bound) and "
        "the parallax bound as exact fixed-point relations over the values the real Earth/Ellipsoid objects return (with "
        "verified sine/cosine witnesses of the latitude); TLC validates latitude-ordered traces per ellipsoid, objects reached "
        "via constructor and via set().",
   note="Trusted: TLC, Fix.tla, math.sin/cos witnesses (norm verified), harness Simpson integral of the library's own rm and "
        "haversine central angle (harness-oracle clauses, compared by the spec).",
   technique="TLA+ trace specification: polynomial ellipse identities and action property over latitude-ordered events",
   ref="5/C18"),
 "C05": dict(
   text="Sphere.tla gives the conversions their meaning as rotations of unit vectors; TLC model-checks the rotation operators on "
        "the octahedral lattice and validates recorded conversions: forward map = the specified rotation, pairs mutually "
        "inverse to 1e-9 degree (chords scaled so nothing underflows), documented ranges; separation through well-conditioned "
        "chord identities with verified half-angle witnesses, position angle through the tangent-plane projection, enclosing "
        "circle bounds.",
   note="Trusted: TLC, Fix.tla, math.sin/cos for the spherical->Cartesian witnesses (norms verified in the spec).",
   technique="TLA+ rotation algebra model-checked on lattice directions + trace validation on verified unit-vector witnesses",
   ref="5/C05"),
 "C06": dict(
   text="Precession is specified as a rigid invertible rotation of unit vectors: zero interval = identity, there-and-back, "
        "angles between stars unchanged (scaled-chord comparison with a verified chord witness), agreement of the equatorial and "
        "ecliptical routes, linearity and size of the proper-motion displacement, Newcomb vs FK5, element reduction inverse; "
        "TLC validates recorded scenarios incl. both polar caps, the rotation algebra itself is model-checked on lattice directions.",
   note="Trusted: TLC, Fix.tla, math.sin/cos/sqrt witnesses (norms / squares verified).",
   technique="TLA+ rotation relations over verified unit-vector witnesses; trace validation",
   ref="5/C06"),
 "C08": dict(
   text="Trace_SunEarth.tla states the reflection law (longitude + 180, latitude negated, same distance), the frame-consistency "
        "law (each frame's rectangular direction = the of-date direction carried there by the library's own precession, norms = "
        "radius vector), the IAU obliquity cubic evaluated in the spec, true = mean + nutation, the 18.6-year main-term bounds on "
        "the Moon's node and the coarse-vs-VSOP87 bounds; TLC validates recorded epochs in exact fixed point on verified witnesses.",
   note="Trusted: TLC, Fix.tla, math.sin/cos/atan2/asin in the ~10-line wiring that hands a rectangular vector to the library's "
        "precession and back (witness norms verified).",
   technique="TLA+ linear/rotation relations over verified witnesses; IAU polynomial in the spec; trace validation",
   ref="5/C08"),
 "C09": dict(
   text="Trace_Geocentric.tla relates every returned geocentric direction to the library's own heliocentric vectors: for planets "
        "and Pluto the direction must point along P(t - tau) - E(t) with the light-time fixed point verified in the spec; for "
        "minor bodies the heliocentric point implied by the returned direction must lie in the orbital plane, on the conic and "
        "at the place Kepler's (ellipse) or Barker's (parabola) equation assigns to t - tau - T; elongation against the apparent "
        "Sun, ranges, and the caller's Epoch left unshifted. All relations are polynomial identities over verified witnesses; "
        "the true-obliquity witness is itself validated against Laskar's polynomial evaluated by TLC.",
   note="Trusted: TLC, Fix.tla, math.sin/cos/sqrt/atan2 for the witnesses and the ~20-line construction of the orbit frame "
        "(normal, perihelion direction) from i, node, argument of perihelion.",
   technique="TLA+ vector identities over verified witnesses; trace validation",
   ref="5/C09"),
 "C20": dict(
   text="ApiHeap.tla models the library as caller-owned objects + module-level state + a memo of call outcomes; the frame "
        "conditions, determinism across arbitrary call histories, totality on the documented domain and clean rejection are "
        "invariants/action properties that TLC evaluates at every step of traces recorded from ~300 introspected callables "
        "(well-typed incl. documented-domain edges, ill-typed, repeated in shuffled order; neighbour histories re-run in reverse order in a fresh interpreter; the repository's own test suite and doctests executed under a tracing pytest plugin); ObjHeap.tla is model-checked over all operation sequences of depth "
        "2 and its TLC-generated behaviours (plus -simulate ones) are replayed on real Angle/Epoch objects.",
   note="Trusted: TLC; the harness's structural digest (sha1 of a canonical deep rendering, 30 bits; call signatures 60 bits) as the observation of object "
        "and module state; the curated argument-domain table.",
   technique="TLA+ heap/memo model; TLC-generated behaviours replayed; trace validation of the whole API catalogue, of neighbour histories and of the repository's own test executions",
   ref="5/C20"),
}

PENDING_REASON = "check not built yet in this round (specification module planned in DESIGN.md section 5); not claimed until its trace specification validates the unchanged tree"

def main():
    checks = []
    for pid in ALL:
        if pid not in CLAIMS:
            continue
        c = CLAIMS[pid]
        checks.append(dict(
            property_id=pid,
            quick_cmd="./check %s quick" % pid,
            thorough_cmd="./check %s thorough" % pid,
            evidence_file="/verif/evidence/%s.json" % pid,
            replay_cmd_template="./check %s --replay {path}" % pid,
            engine="tlc+trace",
            level_claimed=dict(category="model_checking", text=c["text"], design_ref="DESIGN.md section " + c["ref"]),
            level_note=c["note"],
            technique=c["technique"]))
    na = [dict(property_id=p, reason=PENDING_REASON) for p in ALL if p not in CLAIMS]
    m = dict(
        version=1,
        setup_cmd="./setup.sh",
        hooks=dict(guard="ARCHITEST_PYMEEUS_VERIF",
                   enable="no source hooks are needed: pymeeus is sequential and every abstract state the "
                          "specification talks about is observable through the public API at call return; "
                          "./check exports ARCHITEST_PYMEEUS_VERIF=1 for uniformity",
                   baseline_off_cmd="cd /repo && /venv/bin/python -m pytest -q -p no:cacheprovider",
                   source_commits=[], add_only=True),
        engines=[dict(name="tlc+trace", path="/verif/check",
                      serves_properties=sorted(CLAIMS),
                      kind_free_text="explicit TLA+ specification (spec/*.tla) model-checked by TLC 1.8; "
                                     "conformance by TLC trace validation of events recorded from the real "
                                     "library (harness/drv_*.py) and by replaying TLC-generated behaviours; Apalache 0.58 proves the integer-only parts for unbounded data: inductive invariants of the civil and Islamic calendar chains (C01, C16, C19), the Easter range (C19) and the print law of the dms_str carry model (C04)")],
        checks=checks,
        not_applicable=na,
        notes="See DESIGN.md (status header, sections 7, 10, 11, 12) and ASBUILT.md (generated per-check description). Exit codes: 0 held, 1 violation (VIOLATION lines), 2 machinery failure. ./check GROWTH runs the growth suite outside the listed properties (not a registered check). tools/matrix.py re-runs the seeded changes under seeded/ against the checks in scratch worktrees.")
    with open(os.path.join(V, "MANIFEST.json"), "w") as f:
        json.dump(m, f, indent=1)
        f.write("\n")
    try:
        import jsonschema
        jsonschema.validate(m, json.load(open("/root/.vp/MANIFEST.schema.json")))
        print("MANIFEST valid;", len(checks), "checks")
    except ImportError:
        print("written (jsonschema not available)")

if __name__ == "__main__":
    main()
