#!/bin/sh
# Offline setup: verify the tools, parse every specification, run the
# machinery self-tests (Fix arithmetic vs Python Fractions; negative trace).
cd "$(dirname "$0")" || exit 2
set -e
command -v java >/dev/null
test -f /opt/veriftools/tla/tla2tools.jar
test -x /venv/bin/python
mkdir -p work evidence replays
export PYTHONPATH=/repo:/verif/harness PYTHONHASHSEED=0 PYTHONDONTWRITEBYTECODE=1
/venv/bin/python -B harness/selftest.py
